module verif/mc

go 1.26.8

require (
	github.com/DataDog/extendeddaemonset v0.0.0
	github.com/DataDog/extendeddaemonset/api v0.0.0
	github.com/evanphx/json-patch/v5 v5.9.0
	github.com/go-logr/logr v1.4.2
	github.com/prometheus/common v0.55.0
	k8s.io/api v0.31.1
	k8s.io/apimachinery v0.31.1
	k8s.io/client-go v0.31.1
	k8s.io/kube-state-metrics/v2 v2.13.0
	sigs.k8s.io/controller-runtime v0.19.0
)

require (
	github.com/beorn7/perks v1.0.1 // indirect
	github.com/blang/semver/v4 v4.0.0 // indirect
	github.com/cespare/xxhash/v2 v2.3.0 // indirect
	github.com/davecgh/go-spew v1.1.2-0.20180830191138-d8f796af33cc // indirect
	github.com/emicklei/go-restful/v3 v3.11.0 // indirect
	github.com/fsnotify/fsnotify v1.7.0 // indirect
	github.com/fxamacker/cbor/v2 v2.7.0 // indirect
	github.com/go-errors/errors v1.4.2 // indirect
	github.com/go-openapi/jsonpointer v0.21.0 // indirect
	github.com/go-openapi/jsonreference v0.20.2 // indirect
	github.com/go-openapi/swag v0.23.0 // indirect
	github.com/gogo/protobuf v1.3.2 // indirect
	github.com/golang/groupcache v0.0.0-20210331224755-41bb18bfe9da // indirect
	github.com/golang/protobuf v1.5.4 // indirect
	github.com/google/btree v1.0.1 // indirect
	github.com/google/gnostic-models v0.6.9 // indirect
	github.com/google/go-cmp v0.6.0 // indirect
	github.com/google/gofuzz v1.2.0 // indirect
	github.com/google/shlex v0.0.0-20191202100458-e7afc7fbc510 // indirect
	github.com/google/uuid v1.6.0 // indirect
	github.com/gregjones/httpcache v0.0.0-20180305231024-9cad4c3443a7 // indirect
	github.com/hako/durafmt v0.0.0-20210608085754-5c1018a4e16b // indirect
	github.com/imdario/mergo v0.3.12 // indirect
	github.com/josharian/intern v1.0.0 // indirect
	github.com/json-iterator/go v1.1.12 // indirect
	github.com/liggitt/tabwriter v0.0.0-20181228230101-89fcab3d43de // indirect
	github.com/mailru/easyjson v0.7.7 // indirect
	github.com/mattn/go-runewidth v0.0.15 // indirect
	github.com/moby/term v0.5.0 // indirect
	github.com/modern-go/concurrent v0.0.0-20180306012644-bacd9c7ef1dd // indirect
	github.com/modern-go/reflect2 v1.0.2 // indirect
	github.com/monochromegane/go-gitignore v0.0.0-20200626010858-205db1a8cc00 // indirect
	github.com/munnerz/goautoneg v0.0.0-20191010083416-a7dc8b61c822 // indirect
	github.com/olekukonko/tablewriter v0.0.0-20170122224234-a0225b3f23b5 // indirect
	github.com/peterbourgon/diskv v2.0.1+incompatible // indirect
	github.com/pkg/errors v0.9.1 // indirect
	github.com/prometheus/client_golang v1.19.1 // indirect
	github.com/prometheus/client_model v0.6.1 // indirect
	github.com/prometheus/procfs v0.15.1 // indirect
	github.com/rivo/uniseg v0.4.4 // indirect
	github.com/spf13/cobra v1.8.1 // indirect
	github.com/spf13/pflag v1.0.5 // indirect
	github.com/x448/float16 v0.8.4 // indirect
	github.com/xlab/treeprint v1.2.0 // indirect
	go.starlark.net v0.0.0-20230525235612-a134d8f9ddca // indirect
	golang.org/x/exp v0.0.0-20230905200255-921286631fa9 // indirect
	golang.org/x/net v0.28.0 // indirect
	golang.org/x/oauth2 v0.21.0 // indirect
	golang.org/x/sync v0.8.0 // indirect
	golang.org/x/sys v0.23.0 // indirect
	golang.org/x/term v0.23.0 // indirect
	golang.org/x/text v0.17.0 // indirect
	golang.org/x/time v0.5.0 // indirect
	gomodules.xyz/jsonpatch/v2 v2.4.0 // indirect
	google.golang.org/protobuf v1.35.1 // indirect
	gopkg.in/evanphx/json-patch.v4 v4.12.0 // indirect
	gopkg.in/inf.v0 v0.9.1 // indirect
	gopkg.in/yaml.v2 v2.4.0 // indirect
	gopkg.in/yaml.v3 v3.0.1 // indirect
	k8s.io/apiextensions-apiserver v0.31.1 // indirect
	k8s.io/cli-runtime v0.31.1 // indirect
	k8s.io/component-base v0.31.1 // indirect
	k8s.io/klog/v2 v2.130.1 // indirect
	k8s.io/kube-openapi v0.0.0-20240228011516-70dd3763d340 // indirect
	k8s.io/utils v0.0.0-20240711033017-18e509b52bc8 // indirect
	sigs.k8s.io/json v0.0.0-20221116044647-bc3834ca7abd // indirect
	sigs.k8s.io/kustomize/api v0.17.2 // indirect
	sigs.k8s.io/kustomize/kyaml v0.17.1 // indirect
	sigs.k8s.io/structured-merge-diff/v4 v4.4.1 // indirect
	sigs.k8s.io/yaml v1.4.0 // indirect
)

replace github.com/DataDog/extendeddaemonset => /repo

replace github.com/DataDog/extendeddaemonset/api => /repo/api
