// Package h holds the plumbing shared by every check: evidence files, replay files,
// known findings, VIOLATION / KNOWN-FINDING lines, map-iteration-order control and tiers.
package h

import (
	"crypto/sha256"
	"encoding/hex"
	"encoding/json"
	"fmt"
	"os"
	"path/filepath"
	"sort"
	"strconv"
	"strings"
	"sync"
	"time"
	_ "unsafe"
)

// verifIterOffset lives in the overlaid internal/runtime/maps/table.go (bin/gen-overlay).
// Non-zero: every map iterator starts at slot (offset % 8); 8 = insertion (slot) order for maps <= 8 entries.
//
//go:linkname verifIterOffset internal/runtime/maps.verifIterOffset
var verifIterOffset uint64

// SetMapOrder fixes the iteration start slot (0..7) of every Go map iterator of this process.
func SetMapOrder(rot int) { verifIterOffset = uint64(8 + rot%8) }

// MapOrderSelfTest checks that the overlay is active (insertion order for small maps).
func MapOrderSelfTest() error {
	SetMapOrder(0)
	for trial := 0; trial < 50; trial++ {
		m := map[string]int{}
		keys := []string{"q", "a", "z", "b", "y", "c", "x"}
		for i, k := range keys {
			m[k] = i
		}
		i := 0
		for k := range m {
			if k != keys[i] {
				return fmt.Errorf("map order not under control (overlay missing?): got %q at %d", k, i)
			}
			i++
		}
	}
	return nil
}

func init() { SetMapOrder(0) }

// Tier returns "quick" or "thorough" (env VERIF_TIER).
func Tier() string {
	if os.Getenv("VERIF_TIER") == "thorough" {
		return "thorough"
	}
	return "quick"
}

func Thorough() bool { return Tier() == "thorough" }

func Seed() int {
	s, _ := strconv.Atoi(os.Getenv("VERIF_SEED"))
	return s
}

// Deadline returns the soft wall-clock budget of the run (never an oracle: on expiry a check stops
// exploring, reports exhaustive:false and exits 0).
func Deadline() time.Duration {
	if v := os.Getenv("VERIF_DEADLINE_S"); v != "" {
		if s, err := strconv.Atoi(v); err == nil {
			return time.Duration(s) * time.Second
		}
	}
	if Thorough() {
		return 20 * time.Minute
	}
	return 150 * time.Second
}

const Root = "/verif"

// ---------------------------------------------------------------------------------------------
// Known findings

type Finding struct {
	Property  string `json:"property"`
	Signature string `json:"signature"`
	What      string `json:"what"`
}

type knownFile struct {
	Known []Finding `json:"known"`
	Fixed []struct {
		Property string `json:"property"`
		Commit   string `json:"commit"`
		What     string `json:"what"`
	} `json:"fixed"`
}

func loadKnown() []Finding {
	b, err := os.ReadFile(filepath.Join(Root, "known_findings.json"))
	if err != nil {
		return nil
	}
	var k knownFile
	if err := json.Unmarshal(b, &k); err != nil {
		fmt.Fprintf(os.Stderr, "known_findings.json unreadable: %v\n", err)
		os.Exit(2)
	}
	return k.Known
}

// ---------------------------------------------------------------------------------------------
// Run = one check run of one property

type Violation struct {
	Signature string      `json:"signature"`
	Monitor   string      `json:"monitor"`
	Message   string      `json:"message"`
	Replay    interface{} `json:"replay"`
	// Rank orders violations with the same signature: the smallest one is kept (BFS depth first).
	Rank int64 `json:"-"`
}

type Run struct {
	Property string
	Level    string
	start    time.Time

	mu          sync.Mutex
	violations  map[string]*Violation // by signature: first (smallest) one kept
	vioCount    map[string]int
	Cov         map[string]interface{}
	samples     []interface{}
	Assumptions []string
	nontrivial  map[string]struct{}
	counters    map[string]int64
	exhaustive  bool
	notes       []string
	knownOnce   sync.Once
	known       map[string]bool
}

// IsKnown reports whether a signature is listed as a known finding of this property.
func (r *Run) IsKnown(sig string) bool {
	r.knownOnce.Do(func() {
		r.known = map[string]bool{}
		for _, f := range loadKnown() {
			if f.Property == r.Property {
				r.known[f.Signature] = true
			}
		}
	})
	return r.known[sig]
}

// Violations returns a copy of the recorded violations (first per signature).
func (r *Run) Violations() []Violation {
	r.mu.Lock()
	defer r.mu.Unlock()
	var out []Violation
	for _, v := range r.violations {
		out = append(out, *v)
	}
	return out
}

// Has reports whether a violation with this signature was recorded.
func (r *Run) Has(sig string) bool {
	r.mu.Lock()
	defer r.mu.Unlock()
	_, ok := r.violations[sig]
	return ok
}

// HasUnknownViolation reports whether a violation outside the known findings was recorded.
func (r *Run) HasUnknownViolation() bool {
	r.mu.Lock()
	defer r.mu.Unlock()
	for s := range r.violations {
		if !r.IsKnown(s) {
			return true
		}
	}
	return false
}

func NewRun(property, level string) *Run {
	return &Run{Property: property, Level: level, start: time.Now(),
		violations: map[string]*Violation{}, vioCount: map[string]int{}, Cov: map[string]interface{}{},
		nontrivial: map[string]struct{}{}, counters: map[string]int64{}, exhaustive: true}
}

// Violate records a violation; the first one per signature is kept as the replay.
func (r *Run) Violate(v Violation) {
	r.mu.Lock()
	defer r.mu.Unlock()
	r.vioCount[v.Signature]++
	if old, ok := r.violations[v.Signature]; !ok || v.Rank < old.Rank {
		vv := v
		r.violations[v.Signature] = &vv
	}
}

func (r *Run) Sample(s interface{}) {
	r.mu.Lock()
	defer r.mu.Unlock()
	if len(r.samples) < 6 {
		r.samples = append(r.samples, s)
	}
}

// Nontrivial counts a distinct non-trivial case (by caller-chosen class key).
func (r *Run) Nontrivial(class string) {
	r.mu.Lock()
	r.nontrivial[class] = struct{}{}
	r.mu.Unlock()
}

func (r *Run) Count(name string, n int64) {
	r.mu.Lock()
	r.counters[name] += n
	r.mu.Unlock()
}

func (r *Run) Counter(name string) int64 {
	r.mu.Lock()
	defer r.mu.Unlock()
	return r.counters[name]
}

func (r *Run) NotExhaustive(why string) {
	r.mu.Lock()
	r.exhaustive = false
	r.notes = append(r.notes, why)
	r.mu.Unlock()
}

func (r *Run) Note(s string) {
	r.mu.Lock()
	r.notes = append(r.notes, s)
	r.mu.Unlock()
}

func (r *Run) Elapsed() time.Duration { return time.Since(r.start) }

func (r *Run) Expired() bool { return time.Since(r.start) > Deadline() }

func sigFile(sig string) string {
	s := sha256.Sum256([]byte(sig))
	return hex.EncodeToString(s[:])[:12]
}

// Finish writes the evidence file and replays, prints VIOLATION / KNOWN-FINDING lines and
// returns the process exit code (0 or 1).
func (r *Run) Finish(rule string) int {
	known := map[string]Finding{}
	for _, f := range loadKnown() {
		if f.Property == r.Property {
			known[f.Signature] = f
		}
	}
	sigs := make([]string, 0, len(r.violations))
	for s := range r.violations {
		sigs = append(sigs, s)
	}
	sort.Strings(sigs)
	exit := 0
	unknown := 0
	replayDir := filepath.Join(Root, "replays")
	if d := os.Getenv("VERIF_REPLAY_DIR"); d != "" {
		replayDir = d // development runs against another checkout keep their replays out of /verif/replays
	}
	os.MkdirAll(replayDir, 0o755)
	for _, s := range sigs {
		v := r.violations[s]
		path := filepath.Join(replayDir, r.Property+"-"+sigFile(s)+".json")
		b, _ := json.MarshalIndent(map[string]interface{}{"property": r.Property, "signature": v.Signature,
			"monitor": v.Monitor, "message": v.Message, "replay": v.Replay, "occurrences": r.vioCount[s]}, "", " ")
		os.WriteFile(path, b, 0o644)
		if f, ok := known[s]; ok {
			fmt.Printf("KNOWN-FINDING: property=%s %s [%s] (x%d) replay=%s\n", r.Property, f.What, s, r.vioCount[s], path)
			continue
		}
		unknown++
		exit = 1
		fmt.Printf("VIOLATION property=%s replay=%s\n", r.Property, path)
		fmt.Printf("  signature: %s\n  %s: %s\n", v.Signature, v.Monitor, v.Message)
	}

	cov := map[string]interface{}{}
	for k, v := range r.Cov {
		cov[k] = v
	}
	for k, v := range r.counters {
		if _, ok := cov[k]; !ok {
			cov[k] = v
		}
	}
	if _, ok := cov["evaluations"]; !ok {
		cov["evaluations"] = r.counters["evaluations"]
	}
	cov["distinct_nontrivial"] = len(r.nontrivial)
	for c := range r.nontrivial {
		if strings.Contains(c, "|") {
			rule += "; explored transitions also count as distinct non-trivial cases by (scenario, event kind, number of pod creations, pod deletions, other writes, error), trivial = a transition that writes nothing"
			break
		}
	}
	cov["rule"] = rule
	if len(r.samples) == 0 {
		r.samples = append(r.samples, "none recorded")
	}
	cov["samples"] = r.samples
	cov["exhaustive"] = r.exhaustive
	if len(r.notes) > 0 {
		cov["notes"] = r.notes
	}
	if len(sigs) > 0 {
		cov["violation_signatures"] = sigs
	}
	ev := map[string]interface{}{
		"property_id": r.Property, "tier": Tier(), "seed": Seed(), "level": r.Level,
		"coverage": cov, "assumptions": r.Assumptions, "wall_s": time.Since(r.start).Seconds(),
		"violations": unknown,
	}
	if ev["assumptions"] == nil || len(r.Assumptions) == 0 {
		ev["assumptions"] = []string{"see DESIGN.md section 7"}
	}
	b, _ := json.MarshalIndent(ev, "", " ")
	evDir := filepath.Join(Root, "evidence")
	if d := os.Getenv("VERIF_EVIDENCE_DIR"); d != "" {
		evDir = d // development runs against another checkout do not overwrite the committed evidence
	}
	os.MkdirAll(evDir, 0o755)
	if err := os.WriteFile(filepath.Join(evDir, r.Property+".json"), b, 0o644); err != nil {
		fmt.Fprintf(os.Stderr, "cannot write evidence: %v\n", err)
		return 2
	}
	fmt.Printf("%s %s: evaluations=%v distinct_nontrivial=%d exhaustive=%v violations=%d known=%d wall=%.1fs\n",
		r.Property, Tier(), cov["evaluations"], len(r.nontrivial), r.exhaustive, unknown, len(sigs)-unknown, time.Since(r.start).Seconds())
	return exit
}

// Sig builds a canonical signature "<monitor>: k=v k=v".
func Sig(monitor string, kv ...string) string {
	return monitor + ": " + strings.Join(kv, " ")
}
