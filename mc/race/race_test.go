// Package race: the free-running pass of C17. Built with -race and NOT under the cooperative scheduler
// (whose hand-offs would be happens-before edges and blind the detector). Fixed amounts of work, no time oracle.
package race

import (
	"context"
	"errors"
	"fmt"
	"sync"
	"testing"
	"time"

	autoscalingv1 "k8s.io/api/autoscaling/v1"
	corev1 "k8s.io/api/core/v1"
	"k8s.io/apimachinery/pkg/api/resource"
	metav1 "k8s.io/apimachinery/pkg/apis/meta/v1"
	"sigs.k8s.io/controller-runtime/pkg/client"

	v1 "github.com/DataDog/extendeddaemonset/api/v1alpha1"

	w "verif/mc/world"
)

var errInjected = errors.New("verif: injected pod API failure")

func pod(ns, rs, eds, node, hash string, ready bool, now time.Time) *corev1.Pod {
	st := corev1.ConditionFalse
	if ready {
		st = corev1.ConditionTrue
	}
	return &corev1.Pod{ObjectMeta: metav1.ObjectMeta{Namespace: ns, Name: rs + "-" + node, CreationTimestamp: metav1.NewTime(now.Add(-time.Hour)),
		Labels:      map[string]string{v1.ExtendedDaemonSetNameLabelKey: eds, v1.ExtendedDaemonSetReplicaSetNameLabelKey: rs},
		Annotations: map[string]string{v1.MD5ExtendedDaemonSetAnnotationKey: hash}, Finalizers: []string{w.PodFinalizer}},
		Spec:   corev1.PodSpec{NodeName: node, Containers: []corev1.Container{{Name: "main", Image: "A"}}},
		Status: corev1.PodStatus{Phase: corev1.PodRunning, Conditions: []corev1.PodCondition{{Type: corev1.PodReady, Status: st}}}}
}

func ers(ns, name, edsName string, tpl corev1.PodTemplateSpec, now time.Time) *v1.ExtendedDaemonSetReplicaSet {
	hash := w.TemplateHash(&tpl)
	t := true
	return &v1.ExtendedDaemonSetReplicaSet{ObjectMeta: metav1.ObjectMeta{Namespace: ns, Name: name, CreationTimestamp: metav1.NewTime(now.Add(-time.Hour)),
		Labels: map[string]string{v1.ExtendedDaemonSetNameLabelKey: edsName}, Annotations: map[string]string{v1.MD5ExtendedDaemonSetAnnotationKey: hash},
		OwnerReferences: []metav1.OwnerReference{{APIVersion: "datadoghq.com/v1alpha1", Kind: "ExtendedDaemonSet", Name: edsName, Controller: &t}}},
		Spec: v1.ExtendedDaemonSetReplicaSetSpec{Template: tpl, TemplateGeneration: hash}}
}

// batch runs one replica-set sync whose fan-out has k members, failing the calls selected by fail(i).
func batch(kind string, k int, fail func(i int) bool) {
	now := time.Now()
	eds := w.NewEDS("ns", "foo", "A", w.WithFrequency(0), w.WithRolling(fmt.Sprint(k), "100%", 250, time.Minute))
	eds = v1.DefaultExtendedDaemonSet(eds, "auto")
	rs := ers("ns", "foo-a", "foo", w.Tpl("A"), now)
	eds.Status.ActiveReplicaSet = rs.Name
	objs := []client.Object{eds, rs}
	for i := 0; i < k; i++ {
		n := fmt.Sprintf("n%d", i+1)
		switch kind {
		case "create":
			objs = append(objs, w.MkNode(n, nil))
		case "delete":
			objs = append(objs, w.MkNode(n, nil), pod("ns", rs.Name, "foo", n, "0ld", true, now))
		case "cleanup":
			objs = append(objs, pod("ns", rs.Name, "foo", "gone-"+n, rs.Spec.TemplateGeneration, true, now))
		}
	}
	st := w.NewState(0, objs...)
	l := w.NewLive(st, w.Config{})
	var mu sync.Mutex
	idx := 0
	l.API.Hook = func(c *w.Call) error {
		mu.Lock()
		i := idx
		idx++
		mu.Unlock()
		if fail(i) {
			return errInjected
		}
		return nil
	}
	l.ReconcileERS("ns", rs.Name)
}

// batchSharedSetting: a creation batch in which every node is selected by ONE valid ExtendedDaemonsetSetting and some
// nodes also carry a resource override annotation for the same container (objects shared between the goroutines).
func batchSharedSetting(k int) {
	now := time.Now()
	eds := w.NewEDS("ns", "foo", "A", w.WithFrequency(0), w.WithRolling("1", "100%", 250, time.Minute))
	eds = v1.DefaultExtendedDaemonSet(eds, "auto")
	rs := ers("ns", "foo-a", "foo", w.Tpl("A"), now)
	eds.Status.ActiveReplicaSet = rs.Name
	set := &v1.ExtendedDaemonsetSetting{ObjectMeta: metav1.ObjectMeta{Namespace: "ns", Name: "set1", CreationTimestamp: metav1.NewTime(now)},
		Spec: v1.ExtendedDaemonsetSettingSpec{Reference: &autoscalingv1.CrossVersionObjectReference{Name: "foo"},
			Containers: []v1.ExtendedDaemonsetSettingContainerSpec{{Name: "main", Resources: corev1.ResourceRequirements{
				Requests: corev1.ResourceList{corev1.ResourceCPU: resource.MustParse("100m")}, Limits: corev1.ResourceList{corev1.ResourceMemory: resource.MustParse("64Mi")}}}}},
		Status: v1.ExtendedDaemonsetSettingStatus{Status: v1.ExtendedDaemonsetSettingStatusValid}}
	objs := []client.Object{eds, rs, set}
	for i := 0; i < k; i++ {
		n := w.MkNode(fmt.Sprintf("n%d", i+1), nil)
		if i%2 == 0 {
			n.Annotations = map[string]string{"resources.extendeddaemonset.datadoghq.com/ns.foo.main": fmt.Sprintf(`{"requests":{"cpu":"%d"}}`, i+2)}
		}
		objs = append(objs, n)
	}
	l := w.NewLive(w.NewState(0, objs...), w.Config{})
	l.ReconcileERS("ns", rs.Name)
}

func TestRaceBatches(t *testing.T) {
	for _, k := range []int{2, 3, 8, 64} {
		for rep := 0; rep < 5; rep++ {
			batchSharedSetting(k)
		}
		fmt.Printf("RACEBODY create-shared-setting k=%d\n", k)
	}
	for _, kind := range []string{"create", "delete", "cleanup"} {
		for _, k := range []int{2, 3, 8, 64} {
			for name, f := range map[string]func(int) bool{"none": func(int) bool { return false }, "one": func(i int) bool { return i == 0 },
				"half": func(i int) bool { return i%2 == 0 }, "all": func(int) bool { return true }} {
				for rep := 0; rep < 5; rep++ {
					batch(kind, k, f)
				}
				fmt.Printf("RACEBODY %s k=%d failing=%s\n", kind, k, name)
			}
		}
	}
}

// TestRaceControllers: the four reconcilers and a kubelet model hammer one store from 16 goroutines,
// a fixed number of operations each.
func TestRaceControllers(t *testing.T) {
	now := time.Now()
	objs := w.Nodes("n1", "n2", "n3")
	objs = append(objs, w.NewEDS("ns", "foo", "A", w.WithFrequency(0), w.WithCanary("1", 10*time.Minute, 0, "auto")))
	objs = append(objs, w.NewEDS("ns", "bar", "A", w.WithFrequency(0)))
	set := &v1.ExtendedDaemonsetSetting{ObjectMeta: metav1.ObjectMeta{Namespace: "ns", Name: "set1", CreationTimestamp: metav1.NewTime(now)}}
	objs = append(objs, set)
	st := w.NewState(0, objs...)
	l := w.NewLive(st, w.Config{})
	ctx := context.Background()
	in := l.API.Inner()
	var wg sync.WaitGroup
	worker := func(id int) {
		defer wg.Done()
		for i := 0; i < 150; i++ {
			switch (id + i) % 8 {
			case 0:
				l.ReconcileEDS("ns", "foo")
			case 1:
				l.ReconcileEDS("ns", "bar")
			case 2, 3:
				erss := &v1.ExtendedDaemonSetReplicaSetList{}
				_ = in.List(ctx, erss)
				for _, r := range erss.Items {
					l.ReconcileERS(r.Namespace, r.Name)
				}
			case 4:
				l.ReconcilePT("ns", "foo")
			case 5:
				l.ReconcileSetting("ns", "set1")
			case 6:
				pods := &corev1.PodList{}
				_ = in.List(ctx, pods)
				for j := range pods.Items {
					p := &pods.Items[j]
					func() {
						defer func() { _ = recover() }() // concurrent updates may conflict; only the race detector's verdict matters
						if p.DeletionTimestamp != nil {
							w.RemovePod(ctx, in, p)
						} else if !w.IsReady(p) {
							w.MakeReady(ctx, in, p)
						}
					}()
				}
			case 7:
				if i == 40 && id == 7 {
					func() {
						defer func() { _ = recover() }()
						e := &v1.ExtendedDaemonSet{}
						if err := in.Get(ctx, client.ObjectKey{Namespace: "ns", Name: "foo"}, e); err == nil {
							e.Spec.Template = w.Tpl("B")
							_ = in.Update(ctx, e)
						}
					}()
				}
			}
		}
	}
	for id := 0; id < 16; id++ {
		wg.Add(1)
		go worker(id)
	}
	wg.Wait()
	fmt.Println("RACEBODY controllers 16 goroutines x 150 operations")
}
