package world

// scen.go — scenario corpus helpers: alphabets, initial-state builders.

import (
	"fmt"
	"sort"
	"strings"
	"testing"
	"time"

	corev1 "k8s.io/api/core/v1"
	metav1 "k8s.io/apimachinery/pkg/apis/meta/v1"
	"k8s.io/apimachinery/pkg/util/intstr"
	"sigs.k8s.io/controller-runtime/pkg/client"

	v1 "github.com/DataDog/extendeddaemonset/api/v1alpha1"
)

// Alpha describes which events are enabled in a scenario.
type Alpha struct {
	NoEDS     bool // do not offer R_eds
	PT        bool // offer R_pt
	Settings  bool // offer R_set
	NoKubelet bool // do not offer ready/gone/gc
	// SpecEdits: deviation: other user edits of the spec: "drop-canary" removes spec.strategy.canary (a complete,
	// defaulted spec remains), "canary-replicas=<v>" changes spec.strategy.canary.replicas
	SpecEdits []string
	Templates []string // deviation: setTemplate to each of these tags (when different from the current one)
	Annots    []string // deviation: annotate "key=value" / "key-"
	Kubectl   []string // deviation: kubectl-eds commands
	PodDev    []string // deviation on pods: unready, restart:N, fail, unknown, waiting:Reason, unschedulable, quarantine
	AddNodes  []string // deviation: "name" or "name:k=v,k=v"
	DelNodes  bool     // deviation: delete any node
	FgDelete  bool     // deviation: the active replica set is deleted with foreground propagation (it lingers, terminating, with a finalizer)
	Taints    []string // deviation: taint any untainted node with effect
	Ticks     []int    // deviation: clock ticks (seconds)
	FreeTicks []int    // always-enabled clock ticks (seconds)
	Restart   bool     // deviation: controller restart (fresh in-memory state)
	// EDSFaults: deviation variants of R_eds with one injected fault each
	EDSFaults []string
	// ERSFaults: deviation variants of R_ers with one injected fault each ("<kind>:<text>", see Apply)
	ERSFaults []string
	// MidCmds: deviation variants of R_ers / R_eds during which a kubectl-eds command lands between the reconcile's
	// reads and its first write ("mid:<command>:<ns/eds>", see Apply)
	MidCmds []string
	// OnlyERS: offer R_ers only for replica sets whose name is listed (empty = all)
	OnlyERS []string
	// OnlyEDS restricts user/deviation events to these ExtendedDaemonSets (ns/name); empty = all
	OnlyEDS []string
	// FreeDev: deviations do not consume budget
	FreeDev bool
}

// Enabled lists the events enabled in s under the alphabet.
func (a *Alpha) Enabled(s *State) []Event {
	var evs []Event
	dev := !a.FreeDev
	edss := s.EDSs()
	if !a.NoEDS {
		for _, e := range edss {
			evs = append(evs, Event{K: "R_eds", A: nn(e)})
		}
	}
	for _, r := range s.ERSs() {
		if len(a.OnlyERS) > 0 && !contains(a.OnlyERS, r.Name) {
			continue
		}
		evs = append(evs, Event{K: "R_ers", A: nn(r)})
	}
	if a.PT {
		for _, e := range edss {
			evs = append(evs, Event{K: "R_pt", A: nn(e)})
		}
	}
	if a.Settings {
		for _, e := range s.Settings() {
			evs = append(evs, Event{K: "R_set", A: nn(e)})
		}
	}
	pods := s.Pods()
	if !a.NoKubelet {
		for _, p := range pods {
			if p.DeletionTimestamp != nil {
				evs = append(evs, Event{K: "gone", A: nn(p)})
				continue
			}
			if p.Status.Phase == corev1.PodFailed || p.Status.Phase == corev1.PodUnknown {
				continue
			}
			if p.Status.Phase != corev1.PodRunning || !IsReady(p) {
				if TargetNode(p) != "" && s.Node(TargetNode(p)) != nil {
					evs = append(evs, Event{K: "ready", A: nn(p)})
				}
			}
		}
		if NeedsGC(s) {
			evs = append(evs, Event{K: "gc"})
		}
	}
	for _, t := range a.FreeTicks {
		evs = append(evs, Event{K: "tick", N: t})
	}
	if s.Budget <= 0 && dev {
		return evs
	}
	// deviations
	for _, e := range edss {
		if len(a.OnlyEDS) > 0 && !contains(a.OnlyEDS, nn(e)) {
			continue
		}
		cur := TemplateTag(&e.Spec.Template)
		for _, t := range a.Templates {
			if t == "=" { // re-apply the current template unchanged (what an edit that only reorders map keys amounts to)
				evs = append(evs, Event{K: "setTemplate", A: nn(e), B: cur, Dev: dev})
				continue
			}
			if t != cur {
				evs = append(evs, Event{K: "setTemplate", A: nn(e), B: t, Dev: dev})
			}
		}
		for _, ed := range a.SpecEdits {
			if strings.HasPrefix(ed, "set-label:") { // a label of the ExtendedDaemonSet object itself is added or changed
				kv := strings.SplitN(strings.TrimPrefix(ed, "set-label:"), "=", 2)
				if e.Labels[kv[0]] != kv[1] {
					evs = append(evs, Event{K: "editSpec", A: nn(e), B: ed, Dev: dev})
				}
				continue
			}
			if e.Spec.Strategy.Canary == nil {
				continue
			}
			if kv := strings.SplitN(ed, "=", 2); len(kv) == 2 && e.Spec.Strategy.Canary.Replicas != nil && e.Spec.Strategy.Canary.Replicas.String() == kv[1] {
				continue
			}
			evs = append(evs, Event{K: "editSpec", A: nn(e), B: ed, Dev: dev})
		}
		for _, an := range a.Annots {
			if strings.HasSuffix(an, "-") {
				if _, ok := Annot(e, strings.TrimSuffix(an, "-")); !ok {
					continue
				}
			} else {
				kv := strings.SplitN(an, "=", 2)
				if v, ok := Annot(e, kv[0]); ok && v == kv[1] {
					continue
				}
			}
			evs = append(evs, Event{K: "annotate", A: nn(e), B: an, Dev: dev})
		}
		for _, c := range a.Kubectl {
			evs = append(evs, Event{K: "kubectl", A: nn(e), B: c, Dev: dev})
		}
	}
	for _, p := range pods {
		if p.DeletionTimestamp != nil {
			continue
		}
		for _, d := range a.PodDev {
			switch {
			case d == "unready":
				if IsReady(p) {
					evs = append(evs, Event{K: "unready", A: nn(p), Dev: dev})
				}
			case strings.HasPrefix(d, "restart:"):
				if p.Status.Phase == corev1.PodRunning {
					var n int
					fmt.Sscanf(d, "restart:%d", &n)
					evs = append(evs, Event{K: "restart", A: nn(p), N: n, Dev: dev})
				}
			case strings.HasPrefix(d, "restart@"): // "restart@<container index>:<n>": a restart of that container (if the pod has it)
				var ci, n int
				fmt.Sscanf(d, "restart@%d:%d", &ci, &n)
				if p.Status.Phase == corev1.PodRunning && ci < len(p.Spec.Containers) {
					evs = append(evs, Event{K: "restart", A: nn(p), B: fmt.Sprint(ci), N: n, Dev: dev})
				}
			case d == "fail":
				if p.Status.Phase != corev1.PodFailed && p.Status.Phase != corev1.PodUnknown {
					evs = append(evs, Event{K: "fail", A: nn(p), Dev: dev})
				}
			case d == "unknown":
				if p.Status.Phase != corev1.PodFailed && p.Status.Phase != corev1.PodUnknown {
					evs = append(evs, Event{K: "unknown", A: nn(p), Dev: dev})
				}
			case strings.HasPrefix(d, "waiting:"):
				if p.Status.Phase != corev1.PodFailed && p.Status.Phase != corev1.PodUnknown && !IsReady(p) {
					evs = append(evs, Event{K: "waiting", A: nn(p), B: strings.TrimPrefix(d, "waiting:"), Dev: dev})
				}
			case d == "quarantine": // the user hides a canary pod from its controller: the ExtendedDaemonSet's name label is removed
				if p.Labels[v1.ExtendedDaemonSetNameLabelKey] != "" && p.Labels[v1.ExtendedDaemonSetReplicaSetCanaryLabelKey] == v1.ExtendedDaemonSetReplicaSetCanaryLabelValue {
					evs = append(evs, Event{K: "quarantine", A: nn(p), Dev: dev})
				}
			case d == "unschedulable":
				if p.Spec.NodeName == "" {
					evs = append(evs, Event{K: "unschedulable", A: nn(p), Dev: dev})
				}
			}
		}
	}
	for _, an := range a.AddNodes {
		p := strings.SplitN(an, ":", 2)
		if s.Node(p[0]) == nil {
			lbl := ""
			if len(p) == 2 {
				lbl = p[1]
			}
			evs = append(evs, Event{K: "addNode", A: p[0], B: lbl, Dev: dev})
		}
	}
	for _, n := range s.Nodes() {
		if a.DelNodes {
			evs = append(evs, Event{K: "delNode", A: n.Name, Dev: dev})
		}
		for _, eff := range a.Taints {
			// "cordon" appends node.kubernetes.io/unschedulable:NoSchedule (tolerated by every daemon pod) - also to a node
			// that already carries another taint, so that taint lists of length two arise in both orders
			key := "verif/taint"
			if eff == "cordon" {
				key = "node.kubernetes.io/unschedulable"
			}
			if eff == "notready" {
				key = "node.kubernetes.io/not-ready"
			}
			has, hasHarness := false, false
			for _, t := range n.Spec.Taints {
				if t.Key == key {
					has = true
				}
				if t.Key == "verif/taint" {
					hasHarness = true
				}
			}
			if has || (eff != "cordon" && hasHarness) {
				continue
			}
			if eff != "cordon" && len(n.Spec.Taints) > 0 && !contains(a.Taints, "cordon") {
				continue // alphabets without cordon keep the old rule: only untainted nodes are tainted
			}
			evs = append(evs, Event{K: "taint", A: n.Name, B: eff, Dev: dev})
		}
	}
	for _, t := range a.Ticks {
		evs = append(evs, Event{K: "tick", N: t, Dev: dev})
	}
	if a.FgDelete {
		for _, e := range edss {
			if rs := s.ERS(e.Namespace, e.Status.ActiveReplicaSet); rs != nil && rs.DeletionTimestamp == nil {
				evs = append(evs, Event{K: "fgdelete", A: nn(rs), Dev: dev})
			}
		}
	}
	for _, e := range edss {
		for _, f := range a.EDSFaults {
			evs = append(evs, Event{K: "R_eds", A: nn(e), B: "fault:" + f, Dev: dev})
		}
	}
	for _, r := range s.ERSs() {
		if len(a.OnlyERS) > 0 && !contains(a.OnlyERS, r.Name) {
			continue
		}
		for _, f := range a.ERSFaults {
			evs = append(evs, Event{K: "R_ers", A: nn(r), B: "fault:" + f, Dev: dev})
		}
	}
	for _, c := range a.MidCmds {
		for _, e := range edss {
			if len(a.OnlyEDS) > 0 && !contains(a.OnlyEDS, nn(e)) {
				continue
			}
			evs = append(evs, Event{K: "R_eds", A: nn(e), B: "mid:" + c + ":" + nn(e), Dev: dev})
			for _, r := range s.ERSs() {
				if r.Namespace != e.Namespace || r.Labels[v1.ExtendedDaemonSetNameLabelKey] != e.Name {
					continue
				}
				if len(a.OnlyERS) > 0 && !contains(a.OnlyERS, r.Name) {
					continue
				}
				evs = append(evs, Event{K: "R_ers", A: nn(r), B: "mid:" + c + ":" + nn(e), Dev: dev})
			}
		}
	}
	if a.Restart {
		evs = append(evs, Event{K: "restartctl", Dev: dev})
	}
	return evs
}

func contains(l []string, s string) bool {
	for _, x := range l {
		if x == s {
			return true
		}
	}
	return false
}

// ---- spec builders -----------------------------------------------------------------------------

func IntOrStr(s string) *intstr.IntOrString {
	v := intstr.Parse(s)
	return &v
}

func Dur(d time.Duration) *metav1.Duration { return &metav1.Duration{Duration: d} }

// EDSOpt mutates an ExtendedDaemonSet under construction.
type EDSOpt func(e *v1.ExtendedDaemonSet)

func WithFrequency(d time.Duration) EDSOpt {
	return func(e *v1.ExtendedDaemonSet) { e.Spec.Strategy.ReconcileFrequency = Dur(d) }
}

func WithRolling(maxUnavailable, slowStartIncrease string, maxParallel int32, interval time.Duration) EDSOpt {
	return func(e *v1.ExtendedDaemonSet) {
		ru := &e.Spec.Strategy.RollingUpdate
		if maxUnavailable != "" {
			ru.MaxUnavailable = IntOrStr(maxUnavailable)
		}
		if slowStartIncrease != "" {
			ru.SlowStartAdditiveIncrease = IntOrStr(slowStartIncrease)
		}
		if maxParallel != 0 {
			ru.MaxParallelPodCreation = &maxParallel
		}
		if interval != 0 {
			ru.SlowStartIntervalDuration = Dur(interval)
		}
	}
}

// WithCanary adds a canary strategy. mode "" = controller default.
func WithCanary(replicas string, duration, noRestarts time.Duration, mode string) EDSOpt {
	return func(e *v1.ExtendedDaemonSet) {
		c := &v1.ExtendedDaemonSetSpecStrategyCanary{Replicas: IntOrStr(replicas), ValidationMode: v1.ExtendedDaemonSetSpecStrategyCanaryValidationMode(mode)}
		if duration > 0 {
			c.Duration = Dur(duration)
		}
		if noRestarts > 0 {
			c.NoRestartsDuration = Dur(noRestarts)
		}
		e.Spec.Strategy.Canary = c
	}
}

func WithAuto(pauseEnabled bool, pauseMax int32, failEnabled bool, failMax int32) EDSOpt {
	return func(e *v1.ExtendedDaemonSet) {
		c := e.Spec.Strategy.Canary
		c.AutoPause = &v1.ExtendedDaemonSetSpecStrategyCanaryAutoPause{Enabled: &pauseEnabled, MaxRestarts: &pauseMax}
		c.AutoFail = &v1.ExtendedDaemonSetSpecStrategyCanaryAutoFail{Enabled: &failEnabled, MaxRestarts: &failMax}
	}
}

func WithAnnotation(key, val string) EDSOpt {
	return func(e *v1.ExtendedDaemonSet) {
		if e.Annotations == nil {
			e.Annotations = map[string]string{}
		}
		e.Annotations[key] = val
	}
}

func NewEDS(ns, name, tag string, opts ...EDSOpt) *v1.ExtendedDaemonSet {
	e := MkEDS(ns, name, Tpl(tag))
	for _, o := range opts {
		o(e)
	}
	return e
}

func Nodes(names ...string) []client.Object {
	var out []client.Object
	for _, n := range names {
		p := strings.SplitN(n, ":", 2)
		lbl := map[string]string{}
		if len(p) == 2 {
			lbl = parseLabels(p[1])
		}
		out = append(out, MkNode(p[0], lbl))
	}
	return out
}

func NewState(budget int, objs ...client.Object) *State {
	cp := make([]*Obj, len(objs))
	for i, o := range objs {
		cp[i] = Wrap(o)
	}
	SortWrapped(cp)
	return &State{Objs: cp, Budget: budget}
}

func TplMap(tags ...string) Templates {
	m := Templates{}
	for _, t := range tags {
		m[t] = Tpl(t)
	}
	return m
}

// Converge runs the closure from s and returns the converged state (fatal harness error if it does not converge).
func Converge(t *testing.T, sc *Scenario, s *State) *State {
	f, why := TryConverge(t, sc, s)
	if f == nil {
		panic(why)
	}
	return f
}

// TryConverge is Converge without the panic: nil and a description when the set-up does not reach a fixpoint.
func TryConverge(t *testing.T, sc *Scenario, s *State) (*State, string) {
	r := Closure(t, sc, s, ClosureOpts{SkipJumps: true, Trace: true})
	if !r.Converged {
		return nil, fmt.Sprintf("scenario %s: initial closure did not converge: %s\n%s\n%s", sc.Name, r.Why, strings.Join(r.Trace, "\n"), strings.Join(r.Final.Describe(), "\n"))
	}
	f := r.Final
	f.Budget = s.Budget
	return f, ""
}

// SortedKeys is a small helper for deterministic map iteration in harness code.
func SortedKeys[V any](m map[string]V) []string {
	ks := make([]string, 0, len(m))
	for k := range m {
		ks = append(ks, k)
	}
	sort.Strings(ks)
	return ks
}
