package world

// fixpoint.go — what must hold at a closure fixpoint (C02) and the status clauses of C14.

import (
	"fmt"

	corev1 "k8s.io/api/core/v1"

	v1 "github.com/DataDog/extendeddaemonset/api/v1alpha1"
)

// CheckConverged: every eligible node runs exactly one Ready, non-terminating own pod built from the live
// template and no other own pod remains. Returns a signature ("" = fine) and a message.
func CheckConverged(s *State, ns, name string) (string, string) {
	e := s.EDS(ns, name)
	if e == nil {
		return "", ""
	}
	active := s.ERS(ns, e.Status.ActiveReplicaSet)
	if active == nil {
		return "C02/fixpoint: no active replica set at the fixpoint", e.Status.ActiveReplicaSet
	}
	live := TemplateHash(&e.Spec.Template)
	if e.Status.Canary != nil {
		return "C02/fixpoint: a canary is still pending at the fixpoint", fmt.Sprint(e.Status.Canary.Nodes)
	}
	if active.Spec.TemplateGeneration != live {
		return "C02/fixpoint: the active replica set does not match the live template (spec.template) at the fixpoint", active.Name
	}
	perNode := map[string][]*corev1.Pod{}
	for _, p := range s.Pods() {
		if OwnedBy(p, ns, name) {
			perNode[TargetNode(p)] = append(perNode[TargetNode(p)], p)
		}
	}
	for _, n := range s.Nodes() {
		el := Eligible(n, &e.Spec.Template)
		pods := perNode[n.Name]
		delete(perNode, n.Name)
		if !el {
			for _, p := range pods {
				if p.Status.Phase != corev1.PodUnknown {
					return "C02/fixpoint: a daemon pod remains on a node that is not eligible", p.Name
				}
			}
			continue
		}
		var good, other int
		for _, p := range pods {
			if p.Status.Phase == corev1.PodUnknown {
				continue
			}
			if p.DeletionTimestamp == nil && IsReady(p) && PodHash(p) == live {
				good++
			} else {
				other++
			}
		}
		if good != 1 || other != 0 {
			return "C02/fixpoint: an eligible node does not run exactly one Ready pod of the live template", fmt.Sprintf("node %s: %d good, %d other", n.Name, good, other)
		}
	}
	for n, pods := range perNode {
		for _, p := range pods {
			if p.Status.Phase != corev1.PodUnknown {
				return "C02/fixpoint: a daemon pod remains for a node that does not exist", fmt.Sprintf("%s on %s", p.Name, n)
			}
		}
	}
	return "", ""
}

// CheckQuiescentStatus: C14's quiescent clause.
func CheckQuiescentStatus(s *State, ns, name string) (string, string) {
	e := s.EDS(ns, name)
	if e == nil {
		return "", ""
	}
	live := TemplateHash(&e.Spec.Template)
	var elig, exist, ready, upToDate int32
	for _, n := range s.Nodes() {
		if Eligible(n, &e.Spec.Template) {
			elig++
		}
	}
	for _, p := range s.Pods() {
		if !OwnedBy(p, ns, name) || p.Status.Phase == corev1.PodUnknown {
			continue
		}
		exist++
		if IsReady(p) {
			ready++
		}
		if PodHash(p) == live {
			upToDate++
		}
	}
	st := e.Status
	if st.Desired != elig || st.Current != exist || st.Ready != ready || st.Available != ready || st.UpToDate != upToDate {
		return "C14/quiescent: status counters differ from the pods that exist at quiescence",
			fmt.Sprintf("status d/c/r/a/u=%d/%d/%d/%d/%d, cluster eligible/exist/ready/ready/uptodate=%d/%d/%d/%d/%d", st.Desired, st.Current, st.Ready, st.Available, st.UpToDate, elig, exist, ready, ready, upToDate)
	}
	return "", ""
}

// MonC14Status — after each R_eds the ExtendedDaemonSet status equals the documented function of what it read.
func MonC14Status(c *MonCtx) {
	if c.Out.Ev.K != "R_eds" || hasFault(c.Out.Log) || c.Out.RR.Err != nil {
		return
	}
	ns, name := split(c.Out.Ev.A)
	e0, e1 := c.Pre.EDS(ns, name), c.Out.Next.EDS(ns, name)
	if e0 == nil || e1 == nil || !v1.IsDefaultedExtendedDaemonSet(e0) {
		return
	}
	up := UpToDateRS(c.Pre, e0)
	if up == nil {
		return
	}
	cur := c.Pre.ERS(ns, e1.Status.ActiveReplicaSet)
	if cur == nil {
		return
	}
	c.Antecedent("C14/eds-status")
	var sc, sr, sa int32
	for _, r := range c.Pre.ERSs() {
		if r.Namespace == ns && ownerName(r) == name {
			sc += r.Status.Current
			sr += r.Status.Ready
			sa += r.Status.Available
		}
	}
	st := e1.Status
	bad := func(what, msg string) {
		c.Violate("C14", "C14/status: "+what, fmt.Sprintf("%s/%s: %s", ns, name, msg))
	}
	if st.Current != sc || st.Ready != sr || st.Available != sa {
		bad("current/ready/available are not the sums over the replica sets", fmt.Sprintf("got %d/%d/%d want %d/%d/%d", st.Current, st.Ready, st.Available, sc, sr, sa))
	}
	hasCanary := e0.Spec.Strategy.Canary != nil
	failed := hasCanary && ERSCondTrue(up, v1.ConditionTypeCanaryFailed)
	canaryActive := hasCanary && !failed && cur.Name != up.Name
	paused := hasCanary && (AnnotTrue(e0, "canary-paused") || ERSCondTrue(up, v1.ConditionTypeCanaryPaused))
	wantDesired := cur.Status.Desired
	if canaryActive {
		wantDesired += up.Status.Desired
	}
	if st.Desired != wantDesired {
		bad("desired does not come from the active (+canary) replica set", fmt.Sprintf("got %d want %d", st.Desired, wantDesired))
	}
	okUp := st.UpToDate == cur.Status.Current
	if canaryActive {
		okUp = st.UpToDate == up.Status.Current || st.UpToDate == up.Status.Current+cur.Status.Current
	}
	if !okUp {
		bad("upToDate does not come from the active / canary replica set", fmt.Sprintf("got %d", st.UpToDate))
	}
	var want v1.ExtendedDaemonSetStatusState
	switch {
	case failed:
		want = v1.ExtendedDaemonSetStatusStateCanaryFailed
	case canaryActive && paused:
		want = v1.ExtendedDaemonSetStatusStateCanaryPaused
	case canaryActive:
		want = v1.ExtendedDaemonSetStatusStateCanary
	case AnnotTrue(e0, "rollout-frozen"):
		want = v1.ExtendedDaemonSetStatusStateRolloutFrozen
	case AnnotTrue(e0, "rolling-update-paused"):
		want = v1.ExtendedDaemonSetStatusStateRollingUpdatePaused
	default:
		want = v1.ExtendedDaemonSetStatusStateRunning
	}
	if st.State != want {
		bad("state does not reflect the canary facts / annotations", fmt.Sprintf("got %q want %q", st.State, want))
	}
	if canaryActive != (st.Canary != nil) {
		bad("status.canary presence disagrees with the canary being in progress", fmt.Sprintf("canaryActive=%v", canaryActive))
	} else if st.Canary != nil && st.Canary.ReplicaSet != up.Name {
		bad("status.canary.replicaSet is not the replica set matching spec.template", st.Canary.ReplicaSet)
	}
	if want != v1.ExtendedDaemonSetStatusStateCanaryPaused && st.Reason != "" {
		bad("status.reason is set although the state is not Canary Paused", fmt.Sprintf("state=%q reason=%q", st.State, st.Reason))
	}
	if !hasCanary {
		cf, cp := EDSCond(e1, v1.ConditionTypeEDSCanaryFailed), EDSCond(e1, v1.ConditionTypeEDSCanaryPaused)
		if cf != nil && cf.Status == corev1.ConditionTrue || cp != nil && cp.Status == corev1.ConditionTrue {
			bad("a Canary-Paused / Canary-Failed condition is true although there is no canary strategy", "")
		}
	}
	if hasCanary {
		cf, cp := EDSCond(e1, v1.ConditionTypeEDSCanaryFailed), EDSCond(e1, v1.ConditionTypeEDSCanaryPaused)
		if (cf != nil && cf.Status == corev1.ConditionTrue) != failed {
			bad("Canary-Failed condition disagrees with the replica set", fmt.Sprintf("failed=%v", failed))
		}
		if (cp != nil && cp.Status == corev1.ConditionTrue) != (paused && !failed) {
			bad("Canary-Paused condition disagrees with the canary facts", fmt.Sprintf("paused=%v failed=%v", paused, failed))
		}
	}
}
