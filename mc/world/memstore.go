package world

// memstore.go — a small in-memory object store with API-server semantics, implementing client.Client.
//
// It replaces controller-runtime's fake client inside the explorer because the fake client spends most
// of its time in JSON round trips (profiled: > 60 % of a transition). Its behaviour is kept bound to the
// fake client by a differential conformance test (checks/store_conformance_test.go) that replays
// enumerated operation sequences on both and compares results and contents.
//
// Stored objects are immutable: every write stores a fresh copy, so snapshots share objects.

import (
	"context"
	"crypto/sha256"
	"encoding/json"
	"errors"
	"fmt"
	"reflect"
	"sort"
	"strconv"
	"sync"
	"time"

	jsonpatch "github.com/evanphx/json-patch/v5"
	appsv1 "k8s.io/api/apps/v1"
	corev1 "k8s.io/api/core/v1"
	apierrors "k8s.io/apimachinery/pkg/api/errors"
	"k8s.io/apimachinery/pkg/api/meta"
	metav1 "k8s.io/apimachinery/pkg/apis/meta/v1"
	"k8s.io/apimachinery/pkg/labels"
	"k8s.io/apimachinery/pkg/runtime"
	"k8s.io/apimachinery/pkg/runtime/schema"
	"sigs.k8s.io/controller-runtime/pkg/client"

	v1 "github.com/DataDog/extendeddaemonset/api/v1alpha1"
)

// Obj wraps an immutable stored object with its cached digest.
type Obj struct {
	O      client.Object
	Kind   string
	once   sync.Once
	digest [16]byte
}

func Wrap(o client.Object) *Obj { return &Obj{O: o, Kind: kindOf(o)} }

// Digest: hash of the object's JSON without resourceVersion (absolute timestamps).
func (o *Obj) Digest() [16]byte {
	o.once.Do(func() {
		c := o.O.DeepCopyObject().(client.Object)
		c.SetResourceVersion("")
		c.SetManagedFields(nil)
		b, err := json.Marshal(c)
		must(err)
		s := sha256.Sum256(append([]byte(o.Kind+"|"), b...))
		copy(o.digest[:], s[:16])
	})
	return o.digest
}

func objKey(kind, ns, name string) string { return kind + "|" + ns + "|" + name }

// Store is the in-memory API server.
type Store struct {
	mu   sync.Mutex
	objs map[string]*Obj
	// StrictRV: an Update of a custom resource without resourceVersion is refused (what the fake client does).
	StrictRV bool
}

func NewStore(objs []*Obj) *Store {
	s := &Store{objs: make(map[string]*Obj, len(objs)+4)}
	for _, o := range objs {
		if o.O.GetResourceVersion() == "" {
			c := o.O.DeepCopyObject().(client.Object)
			c.SetResourceVersion("999")
			o = Wrap(c)
		}
		s.objs[objKey(o.Kind, o.O.GetNamespace(), o.O.GetName())] = o
	}
	return s
}

// Snapshot returns the stored (immutable) objects sorted by kind/namespace/name.
func (s *Store) Snapshot() []*Obj {
	s.mu.Lock()
	out := make([]*Obj, 0, len(s.objs))
	for _, o := range s.objs {
		out = append(out, o)
	}
	s.mu.Unlock()
	SortWrapped(out)
	return out
}

func SortWrapped(out []*Obj) {
	sort.Slice(out, func(i, j int) bool {
		if out[i].Kind != out[j].Kind {
			return out[i].Kind < out[j].Kind
		}
		if out[i].O.GetNamespace() != out[j].O.GetNamespace() {
			return out[i].O.GetNamespace() < out[j].O.GetNamespace()
		}
		return out[i].O.GetName() < out[j].O.GetName()
	})
}

var gvks = map[string]schema.GroupVersionKind{
	"Pod":                         corev1.SchemeGroupVersion.WithKind("Pod"),
	"Node":                        corev1.SchemeGroupVersion.WithKind("Node"),
	"PodTemplate":                 corev1.SchemeGroupVersion.WithKind("PodTemplate"),
	"DaemonSet":                   appsv1.SchemeGroupVersion.WithKind("DaemonSet"),
	"ExtendedDaemonSet":           v1.GroupVersion.WithKind("ExtendedDaemonSet"),
	"ExtendedDaemonSetReplicaSet": v1.GroupVersion.WithKind("ExtendedDaemonSetReplicaSet"),
	"ExtendedDaemonsetSetting":    v1.GroupVersion.WithKind("ExtendedDaemonsetSetting"),
}

func gr(kind string) schema.GroupResource {
	g := gvks[kind]
	return schema.GroupResource{Group: g.Group, Resource: kind}
}

func hasStatusSubresource(kind string) bool {
	switch kind {
	case "Pod", "ExtendedDaemonSet", "ExtendedDaemonSetReplicaSet", "ExtendedDaemonsetSetting":
		return true
	}
	return false
}

func isCRD(kind string) bool {
	switch kind {
	case "ExtendedDaemonSet", "ExtendedDaemonSetReplicaSet", "ExtendedDaemonsetSetting":
		return true
	}
	return false
}

// assign copies src (deep) into dst, which must have the same concrete type.
func assign(dst, src client.Object) {
	c := src.DeepCopyObject()
	reflect.ValueOf(dst).Elem().Set(reflect.ValueOf(c).Elem())
}

func statusField(o client.Object) reflect.Value {
	return reflect.ValueOf(o).Elem().FieldByName("Status")
}

func nextRV(rv string) string {
	n, err := strconv.Atoi(rv)
	if err != nil {
		n = 0
	}
	return strconv.Itoa(n + 1)
}

func (s *Store) Get(ctx context.Context, key client.ObjectKey, obj client.Object, opts ...client.GetOption) error {
	kind := kindOf(obj)
	s.mu.Lock()
	o, ok := s.objs[objKey(kind, key.Namespace, key.Name)]
	s.mu.Unlock()
	if !ok {
		return apierrors.NewNotFound(gr(kind), key.Name)
	}
	assign(obj, o.O)
	return nil
}

func (s *Store) List(ctx context.Context, list client.ObjectList, opts ...client.ListOption) error {
	lo := &client.ListOptions{}
	lo.ApplyOptions(opts)
	kind := kindOf(list)
	var sel labels.Selector
	if lo.LabelSelector != nil {
		sel = lo.LabelSelector
	}
	s.mu.Lock()
	var items []*Obj
	for _, o := range s.objs {
		if o.Kind != kind {
			continue
		}
		if lo.Namespace != "" && o.O.GetNamespace() != lo.Namespace {
			continue
		}
		if sel != nil && !sel.Matches(labels.Set(o.O.GetLabels())) {
			continue
		}
		items = append(items, o)
	}
	s.mu.Unlock()
	SortWrapped(items)
	switch l := list.(type) {
	case *corev1.PodList:
		l.Items = make([]corev1.Pod, len(items))
		for i, o := range items {
			o.O.(*corev1.Pod).DeepCopyInto(&l.Items[i])
		}
	case *corev1.NodeList:
		l.Items = make([]corev1.Node, len(items))
		for i, o := range items {
			o.O.(*corev1.Node).DeepCopyInto(&l.Items[i])
		}
	case *corev1.PodTemplateList:
		l.Items = make([]corev1.PodTemplate, len(items))
		for i, o := range items {
			o.O.(*corev1.PodTemplate).DeepCopyInto(&l.Items[i])
		}
	case *appsv1.DaemonSetList:
		l.Items = make([]appsv1.DaemonSet, len(items))
		for i, o := range items {
			o.O.(*appsv1.DaemonSet).DeepCopyInto(&l.Items[i])
		}
	case *v1.ExtendedDaemonSetList:
		l.Items = make([]v1.ExtendedDaemonSet, len(items))
		for i, o := range items {
			o.O.(*v1.ExtendedDaemonSet).DeepCopyInto(&l.Items[i])
		}
	case *v1.ExtendedDaemonSetReplicaSetList:
		l.Items = make([]v1.ExtendedDaemonSetReplicaSet, len(items))
		for i, o := range items {
			o.O.(*v1.ExtendedDaemonSetReplicaSet).DeepCopyInto(&l.Items[i])
		}
	case *v1.ExtendedDaemonsetSettingList:
		l.Items = make([]v1.ExtendedDaemonsetSetting, len(items))
		for i, o := range items {
			o.O.(*v1.ExtendedDaemonsetSetting).DeepCopyInto(&l.Items[i])
		}
	default:
		return fmt.Errorf("memstore: unsupported list type %T", list)
	}
	return nil
}

func (s *Store) Create(ctx context.Context, obj client.Object, opts ...client.CreateOption) error {
	kind := kindOf(obj)
	if obj.GetName() == "" {
		return apierrors.NewInvalid(gvks[kind].GroupKind(), "", nil)
	}
	if obj.GetResourceVersion() != "" {
		return apierrors.NewBadRequest("resourceVersion can not be set for Create requests")
	}
	k := objKey(kind, obj.GetNamespace(), obj.GetName())
	s.mu.Lock()
	defer s.mu.Unlock()
	if _, ok := s.objs[k]; ok {
		return apierrors.NewAlreadyExists(gr(kind), obj.GetName())
	}
	c := obj.DeepCopyObject().(client.Object)
	c.SetResourceVersion("1")
	c.GetObjectKind().SetGroupVersionKind(schema.GroupVersionKind{})
	s.objs[k] = Wrap(c)
	obj.SetResourceVersion("1")
	return nil
}

func (s *Store) Delete(ctx context.Context, obj client.Object, opts ...client.DeleteOption) error {
	kind := kindOf(obj)
	k := objKey(kind, obj.GetNamespace(), obj.GetName())
	s.mu.Lock()
	defer s.mu.Unlock()
	o, ok := s.objs[k]
	if !ok {
		return apierrors.NewNotFound(gr(kind), obj.GetName())
	}
	if len(o.O.GetFinalizers()) > 0 {
		if o.O.GetDeletionTimestamp() == nil {
			c := o.O.DeepCopyObject().(client.Object)
			t := metav1.NewTime(time.Now().Truncate(time.Second))
			c.SetDeletionTimestamp(&t)
			c.SetResourceVersion(nextRV(c.GetResourceVersion()))
			s.objs[k] = Wrap(c)
		}
		return nil
	}
	delete(s.objs, k)
	return nil
}

// write implements Update (status=false) and Status().Update (status=true).
func (s *Store) write(obj client.Object, status bool) error {
	kind := kindOf(obj)
	k := objKey(kind, obj.GetNamespace(), obj.GetName())
	s.mu.Lock()
	defer s.mu.Unlock()
	o, ok := s.objs[k]
	if !ok {
		return apierrors.NewNotFound(gr(kind), obj.GetName())
	}
	rv := obj.GetResourceVersion()
	if rv == "" {
		if s.StrictRV && isCRD(kind) {
			return apierrors.NewBadRequest("resourceVersion must be specified for an update of " + kind)
		}
	} else if rv != o.O.GetResourceVersion() {
		return apierrors.NewConflict(gr(kind), obj.GetName(), errors.New("object was modified"))
	}
	var c client.Object
	if status {
		if !hasStatusSubresource(kind) {
			return apierrors.NewNotFound(gr(kind), obj.GetName())
		}
		c = o.O.DeepCopyObject().(client.Object)
		src := obj.DeepCopyObject().(client.Object)
		statusField(c).Set(statusField(src))
	} else {
		c = obj.DeepCopyObject().(client.Object)
		if hasStatusSubresource(kind) {
			keep := o.O.DeepCopyObject().(client.Object)
			statusField(c).Set(statusField(keep))
		}
		// immutable metadata
		c.SetUID(o.O.GetUID())
		c.SetCreationTimestamp(o.O.GetCreationTimestamp())
		c.SetDeletionTimestamp(o.O.GetDeletionTimestamp())
	}
	c.SetResourceVersion(nextRV(o.O.GetResourceVersion()))
	c.GetObjectKind().SetGroupVersionKind(schema.GroupVersionKind{})
	if c.GetDeletionTimestamp() != nil && len(c.GetFinalizers()) == 0 {
		delete(s.objs, k)
	} else {
		s.objs[k] = Wrap(c)
	}
	assign(obj, c)
	return nil
}

func (s *Store) Update(ctx context.Context, obj client.Object, opts ...client.UpdateOption) error {
	return s.write(obj, false)
}

// Patch supports merge patches (client.MergeFrom), which is all the code under test uses.
func (s *Store) Patch(ctx context.Context, obj client.Object, patch client.Patch, opts ...client.PatchOption) error {
	return s.patch(obj, patch, false)
}

// patch applies a merge patch to the stored object. status=false: everything but the status of a kind with a status
// subresource is taken from the merged object; status=true (the status subresource): only the status is. A patch that
// carries metadata.resourceVersion (MergeFromWithOptimisticLock) is refused with a conflict when it is stale; a plain
// merge patch has no precondition.
func (s *Store) patch(obj client.Object, patch client.Patch, status bool) error {
	kind := kindOf(obj)
	k := objKey(kind, obj.GetNamespace(), obj.GetName())
	data, err := patch.Data(obj)
	if err != nil {
		return err
	}
	s.mu.Lock()
	defer s.mu.Unlock()
	o, ok := s.objs[k]
	if !ok {
		return apierrors.NewNotFound(gr(kind), obj.GetName())
	}
	var pm struct {
		Metadata struct {
			ResourceVersion *string `json:"resourceVersion"`
		} `json:"metadata"`
	}
	if json.Unmarshal(data, &pm) == nil && pm.Metadata.ResourceVersion != nil && *pm.Metadata.ResourceVersion != o.O.GetResourceVersion() {
		return apierrors.NewConflict(gr(kind), obj.GetName(), errors.New("the object has been modified; please apply your changes to the latest version and try again"))
	}
	cur, err := json.Marshal(o.O)
	if err != nil {
		return err
	}
	merged, err := jsonpatch.MergePatch(cur, data)
	if err != nil {
		return err
	}
	c := reflect.New(reflect.TypeOf(o.O).Elem()).Interface().(client.Object)
	if err := json.Unmarshal(merged, c); err != nil {
		return err
	}
	if status {
		if !hasStatusSubresource(kind) {
			return apierrors.NewNotFound(gr(kind), obj.GetName())
		}
		keep := o.O.DeepCopyObject().(client.Object)
		statusField(keep).Set(statusField(c))
		c = keep
	} else if hasStatusSubresource(kind) {
		keep := o.O.DeepCopyObject().(client.Object)
		statusField(c).Set(statusField(keep))
	}
	c.SetUID(o.O.GetUID())
	c.SetCreationTimestamp(o.O.GetCreationTimestamp())
	c.SetDeletionTimestamp(o.O.GetDeletionTimestamp())
	c.SetResourceVersion(nextRV(o.O.GetResourceVersion()))
	c.GetObjectKind().SetGroupVersionKind(schema.GroupVersionKind{})
	if c.GetDeletionTimestamp() != nil && len(c.GetFinalizers()) == 0 {
		delete(s.objs, k)
	} else {
		s.objs[k] = Wrap(c)
	}
	assign(obj, c)
	return nil
}

func (s *Store) DeleteAllOf(ctx context.Context, obj client.Object, opts ...client.DeleteAllOfOption) error {
	return errors.New("memstore: DeleteAllOf unsupported")
}

type storeStatus struct{ s *Store }

func (s *Store) Status() client.SubResourceWriter { return storeStatus{s} }
func (s *Store) SubResource(string) client.SubResourceClient {
	panic("memstore: SubResource unsupported")
}
func (w storeStatus) Create(ctx context.Context, obj client.Object, sub client.Object, opts ...client.SubResourceCreateOption) error {
	return errors.New("memstore: status create unsupported")
}
func (w storeStatus) Update(ctx context.Context, obj client.Object, opts ...client.SubResourceUpdateOption) error {
	return w.s.write(obj, true)
}
func (w storeStatus) Patch(ctx context.Context, obj client.Object, patch client.Patch, opts ...client.SubResourcePatchOption) error {
	return w.s.patch(obj, patch, true)
}

func (s *Store) Scheme() *runtime.Scheme     { return Scheme }
func (s *Store) RESTMapper() meta.RESTMapper { return nil }
func (s *Store) GroupVersionKindFor(obj runtime.Object) (schema.GroupVersionKind, error) {
	return gvks[kindOf(obj)], nil
}
func (s *Store) IsObjectNamespaced(obj runtime.Object) (bool, error) {
	return kindOf(obj) != "Node", nil
}
