package world

// mon_more.go — world monitors for C03 (availability budget on real syncs), C07 (retention) and C19 (kubectl-eds diffs).

import (
	"fmt"
	"sort"
	"strings"
	"time"

	corev1 "k8s.io/api/core/v1"
	apiequality "k8s.io/apimachinery/pkg/api/equality"

	v1 "github.com/DataDog/extendeddaemonset/api/v1alpha1"
)

func podAvailable(p *corev1.Pod) bool { return p != nil && p.DeletionTimestamp == nil && IsReady(p) }

func podStuck(p *corev1.Pod, now time.Time) bool {
	if p.Spec.NodeName == "" && p.CreationTimestamp.Add(10*time.Minute).Before(now) {
		return true
	}
	if p.DeletionTimestamp != nil && p.DeletionGracePeriodSeconds != nil && p.DeletionTimestamp.Add(time.Duration(*p.DeletionGracePeriodSeconds)*time.Second).Before(now) {
		return true
	}
	return false
}

// MonC03 — the availability budget on every sync of an active replica set.
func MonC03(c *MonCtx) {
	if c.Out.Ev.K != "R_ers" {
		return
	}
	ns, name := split(c.Out.Ev.A)
	v := BuildSyncView(c.Pre, c.Out.Log, ns, name)
	if v == nil || v.Role != "active" {
		return
	}
	now := Epoch.Add(c.Pre.Now)
	targeted, withoutAvail, stuck := 0, 0, 0
	for n, ok := range v.Eligible {
		if !ok || v.Ignored[n] {
			continue
		}
		targeted++
		k := v.Keeper[n]
		if k != nil && podStuck(k, now) {
			stuck++
		}
		if !podAvailable(k) {
			withoutAvail++
		}
	}
	ru := v.EDS.Spec.Strategy.RollingUpdate
	mu, ok1 := Resolve(ru.MaxUnavailable, targeted)
	mf, ok2 := Resolve(ru.MaxPodSchedulerFailure, targeted)
	if !ok1 || !ok2 {
		return
	}
	U := withoutAvail - min(stuck, mf)
	budget := max(0, mu-U)
	delAvail, delTotal := 0, 0
	for _, d := range v.Deletes {
		p := v.PodByKey[d.NS+"/"+d.Name]
		if p == nil || !v.IsUpdateDeletion(p) || PodHash(p) == v.RS.Spec.TemplateGeneration {
			continue
		}
		delTotal++
		if podAvailable(p) {
			delAvail++
		}
	}
	if delTotal > 0 {
		c.Antecedent("C03/update-deletion")
	}
	if delTotal > mu {
		c.Violate("C03", "C03/total: more than maxUnavailable pods deleted for updating in one sync", fmt.Sprintf("%d > %d", delTotal, mu))
	}
	if delAvail > budget {
		c.Violate("C03", "C03/budget: available pods deleted beyond max(0, maxUnavailable-U)", fmt.Sprintf("deleted %d available, U=%d maxUnavailable=%d", delAvail, U, mu))
	}
}

// MonC07 — a failed replica set is deleted only two minutes after it failed and once it reports no pods.
func MonC07(c *MonCtx) {
	if c.Out.Ev.K == "R_ers" && !hasFault(c.Out.Log) {
		// the failure mark is not lost before the rollback: a replica set that is marked Canary-Failed and is still the
		// one matching spec.template keeps the mark through its own syncs
		ns, name := split(c.Out.Ev.A)
		r0, r1 := c.Pre.ERS(ns, name), c.Out.Next.ERS(ns, name)
		markedBefore := r0 != nil && ERSCondTrue(r0, v1.ConditionTypeCanaryFailed)
		if strings.HasPrefix(c.Out.Ev.B, "mid:canary-fail:") && c.Out.MidRan && c.Out.CmdErr == nil && r0 != nil {
			// the user's accepted `canary fail` landed between this sync's reads and its first write
			if e := c.Pre.EDS(ns, ownerName(r0)); e != nil && e.Status.Canary != nil && e.Status.Canary.ReplicaSet == name {
				markedBefore = true
				c.Antecedent("C07/fail-overtook-sync")
			}
		}
		if r0 != nil && r1 != nil && markedBefore && !ERSCondTrue(r1, v1.ConditionTypeCanaryFailed) {
			if e := c.Pre.EDS(ns, ownerName(r0)); e != nil && e.Status.ActiveReplicaSet != name {
				if up := UpToDateRS(c.Pre, e); up != nil && up.Name == name {
					c.Violate("C07", "C07/sticky: a replica set marked Canary-Failed lost the mark in its own sync before the rollback", name)
				}
			}
		}
		return
	}
	if c.Out.Ev.K != "R_eds" {
		return
	}
	now := Epoch.Add(c.Pre.Now)
	for _, call := range c.Out.Log {
		if call.Kind != "ExtendedDaemonSetReplicaSet" || call.Verb != "delete" {
			continue
		}
		x := c.Pre.ERS(call.NS, call.Name)
		if x == nil || !ERSCondTrue(x, v1.ConditionTypeCanaryFailed) {
			continue
		}
		c.Antecedent("C07/failed-rs-deleted")
		fc := ERSCond(x, v1.ConditionTypeCanaryFailed)
		if now.Before(fc.LastTransitionTime.Add(2 * time.Minute)) {
			c.Violate("C07", "C07/retention: failed replica set deleted before two minutes", fmt.Sprintf("%s after %v", x.Name, now.Sub(fc.LastTransitionTime.Time)))
		}
		if x.Status.Desired+x.Status.Current+x.Status.Ready+x.Status.Available != 0 {
			c.Violate("C07", "C07/retention: failed replica set deleted while it still reports pods", x.Name)
		}
	}
}

var kubectlDocumented = map[string]map[string]string{
	"canary-pause":           {"canary-paused": "true", "canary-unpaused": "false"},
	"canary-unpause":         {"canary-paused": "false", "canary-unpaused": "true"},
	"canary-validate":        {"canary-valid": "<canary-rs>"},
	"canary-fail":            {},
	"pause-rolling-update":   {"rolling-update-paused": "true"},
	"unpause-rolling-update": {"rolling-update-paused": "false"},
	"freeze-rollout":         {"rollout-frozen": "true"},
	"unfreeze-rollout":       {"rollout-frozen": "false"},
}

// MonC19 — kubectl-eds commands change only what they document and refuse when their precondition does not hold.
func MonC19(c *MonCtx) {
	if strings.HasPrefix(c.Out.Ev.K, "R_") && strings.HasPrefix(c.Out.Ev.B, "mid:") {
		// a command that landed between the reads and the first write of a reconcile: it is remembered like any other
		// accepted command, so that the interpretation oracle asks for its documented effect (an accepted command is
		// not lost because a reconcile was in flight)
		if c.Out.MidRan && c.Out.CmdErr == nil {
			parts := strings.SplitN(c.Out.Ev.B, ":", 3)
			ens, ename := split(parts[2])
			if e0 := c.Pre.EDS(ens, ename); e0 != nil {
				canaryRS := ""
				if e0.Status.Canary != nil {
					canaryRS = e0.Status.Canary.ReplicaSet
				}
				if c.Out.Next.Mem == nil {
					c.Out.Next.Mem = map[string]string{}
				}
				c.Out.Next.Mem["lastcmd"] = parts[1] + "|" + canaryRS
				c.Antecedent("C19/command-overtook-reconcile:" + parts[1])
			}
		}
		return
	}
	if c.Out.Ev.K != "kubectl" {
		return
	}
	ns, name := split(c.Out.Ev.A)
	cmd := c.Out.Ev.B
	e0 := c.Pre.EDS(ns, name)
	if e0 == nil {
		return
	}
	post := c.Out.Next
	c.Antecedent("C19/command")
	isCanaryCmd := strings.HasPrefix(cmd, "canary-")
	pre := e0.Status.Canary != nil
	if isCanaryCmd && cmd != "canary-validate" {
		pre = pre && e0.Spec.Strategy.Canary != nil
	}
	if !isCanaryCmd {
		pre = e0.Status.Canary == nil
	}
	if !pre && c.Out.CmdErr == nil {
		c.Violate("C19", "C19/precondition: "+cmd+" acted although its precondition does not hold", fmt.Sprintf("status.canary=%v", e0.Status.Canary != nil))
	}
	// diff
	canaryRS := ""
	if e0.Status.Canary != nil {
		canaryRS = e0.Status.Canary.ReplicaSet
	}
	preBy := map[string]*Obj{}
	for _, o := range c.Pre.Objs {
		preBy[objKey(o.Kind, o.O.GetNamespace(), o.O.GetName())] = o
	}
	changed := []string{}
	for _, o := range post.Objs {
		k := objKey(o.Kind, o.O.GetNamespace(), o.O.GetName())
		p, ok := preBy[k]
		delete(preBy, k)
		if !ok || p.Digest() != o.Digest() {
			changed = append(changed, k)
		}
	}
	for k := range preBy {
		changed = append(changed, k+" (deleted)")
	}
	sort.Strings(changed)
	if c.Out.CmdErr != nil && cmd == "canary-unpause" && e0.Status.Canary != nil && e0.Spec.Strategy.Canary != nil {
		// unpause may refuse when the annotations already say "unpaused"; it must not refuse a canary that is paused by its
		// replica set's own condition (auto-pause) and was never unpaused
		if rs := c.Pre.ERS(ns, e0.Status.Canary.ReplicaSet); rs != nil && ERSCondTrue(rs, v1.ConditionTypeCanaryPaused) && !ERSCondTrue(rs, v1.ConditionTypeCanaryFailed) {
			if _, has := Annot(e0, "canary-unpaused"); !has {
				if _, hasP := Annot(e0, "canary-paused"); !hasP {
					c.Violate("C19", "C19/refusal: canary unpause refused although the canary is paused (by its replica set's condition) and no annotation says otherwise", fmt.Sprint(c.Out.CmdErr))
				}
			}
		}
	}
	if c.Out.CmdErr != nil {
		if len(changed) > 0 {
			c.Violate("C19", "C19/refusal: "+cmd+" returned an error but changed objects", fmt.Sprint(changed))
		}
		return
	}
	c.Antecedent("C19/command-succeeded:" + cmd)
	edsKeyStr := objKey("ExtendedDaemonSet", ns, name)
	rsKey := objKey("ExtendedDaemonSetReplicaSet", ns, canaryRS)
	for _, k := range changed {
		switch {
		case k == edsKeyStr && cmd != "canary-fail":
			e1 := post.EDS(ns, name)
			a, b := e0.DeepCopy(), e1.DeepCopy()
			a.Annotations, b.Annotations = nil, nil
			a.ResourceVersion, b.ResourceVersion = "", ""
			if !apiequality.Semantic.DeepEqual(a, b) {
				c.Violate("C19", "C19/diff: "+cmd+" changed more than annotations on the ExtendedDaemonSet", "")
			}
			doc := kubectlDocumented[cmd]
			keys := map[string]bool{}
			for key := range e0.Annotations {
				keys[key] = true
			}
			for key := range e1.Annotations {
				keys[key] = true
			}
			for key := range keys {
				v0, ok0 := e0.Annotations[key]
				v1_, ok1 := e1.Annotations[key]
				if ok0 == ok1 && v0 == v1_ {
					continue
				}
				short := strings.TrimPrefix(key, "extendeddaemonset.datadoghq.com/")
				want, isDoc := doc[short]
				if want == "<canary-rs>" {
					want = canaryRS
				}
				if !isDoc || !ok1 || v1_ != want {
					c.Violate("C19", "C19/diff: "+cmd+" changed an annotation it does not document (or to an undocumented value)", fmt.Sprintf("%s: %q -> %q", short, v0, v1_))
				}
			}
		case k == rsKey && cmd == "canary-fail":
			r0, r1 := c.Pre.ERS(ns, canaryRS), post.ERS(ns, canaryRS)
			a, b := r0.DeepCopy(), r1.DeepCopy()
			a.Status.Conditions, b.Status.Conditions = nil, nil
			a.ResourceVersion, b.ResourceVersion = "", ""
			if !apiequality.Semantic.DeepEqual(a, b) {
				c.Violate("C19", "C19/diff: canary-fail changed more than the conditions of the canary replica set", "")
			}
			nFailed := 0
			for _, cd := range r1.Status.Conditions {
				if cd.Type == v1.ConditionTypeCanaryFailed {
					nFailed++
					continue
				}
				if old := ERSCond(r0, cd.Type); old == nil || !apiequality.Semantic.DeepEqual(*old, cd) {
					c.Violate("C19", "C19/diff: canary-fail changed a condition other than Canary-Failed", string(cd.Type))
				}
			}
			if !ERSCondTrue(r1, v1.ConditionTypeCanaryFailed) {
				c.Violate("C19", "C19/effect: after canary-fail the canary replica set does not read as Canary-Failed", fmt.Sprintf("%d Canary-Failed conditions", nFailed))
			}
		default:
			c.Violate("C19", "C19/diff: "+cmd+" changed an object other than its documented target", k)
		}
	}
	// postcondition: whatever the object looked like before, an accepted command leaves its documented keys at their
	// documented values (a key left over from an earlier, opposite command included)
	if e1 := post.EDS(ns, name); e1 != nil {
		for short, want := range kubectlDocumented[cmd] {
			if want == "<canary-rs>" {
				want = canaryRS
			}
			if got, ok := Annot(e1, short); !ok || got != want {
				c.Violate("C19", "C19/effect: after an accepted "+cmd+" a documented annotation does not carry its documented value", fmt.Sprintf("%s=%q (present=%v), documented %q", short, got, ok, want))
			}
		}
	}
	// remember the command for the interpretation oracle
	if post.Mem == nil {
		post.Mem = map[string]string{}
	}
	post.Mem["lastcmd"] = cmd + "|" + canaryRS
}
