package world

// state.go — world states, canonical keys, restore, and execution of one transition on the real code.

import (
	"context"
	"crypto/sha256"
	"fmt"
	"reflect"
	"runtime/debug"
	"sort"
	"strings"
	"testing"
	"testing/synctest"
	"time"
	"unsafe"

	"github.com/go-logr/logr"
	corev1 "k8s.io/api/core/v1"
	"k8s.io/apimachinery/pkg/runtime"
	"k8s.io/apimachinery/pkg/types"
	"k8s.io/client-go/tools/record"
	"k8s.io/client-go/util/flowcontrol"
	"sigs.k8s.io/controller-runtime/pkg/reconcile"

	v1 "github.com/DataDog/extendeddaemonset/api/v1alpha1"
	edsctrl "github.com/DataDog/extendeddaemonset/controllers/extendeddaemonset"
	ersctrl "github.com/DataDog/extendeddaemonset/controllers/extendeddaemonsetreplicaset"
	setctrl "github.com/DataDog/extendeddaemonset/controllers/extendeddaemonsetsetting"
	ptctrl "github.com/DataDog/extendeddaemonset/controllers/podtemplate"
)

// Epoch is the instant at which every synctest bubble starts.
var Epoch = time.Date(2000, 1, 1, 0, 0, 0, 0, time.UTC)

// BackoffEntry mirrors flowcontrol.backoffEntry.
type BackoffEntry struct {
	Backoff    time.Duration
	LastUpdate time.Duration // offset from Epoch
}

// State is one state of the world.
type State struct {
	Objs    []*Obj
	Now     time.Duration // offset from Epoch (whole seconds)
	Backoff map[string]BackoffEntry
	Budget  int               // remaining deviations
	Mem     map[string]string // monitor / scenario memory that is part of the state
	key     string
}

func (s *State) Clone() *State {
	n := &State{Objs: s.Objs, Now: s.Now, Budget: s.Budget}
	if len(s.Backoff) > 0 {
		n.Backoff = map[string]BackoffEntry{}
		for k, v := range s.Backoff {
			n.Backoff[k] = v
		}
	}
	if len(s.Mem) > 0 {
		n.Mem = map[string]string{}
		for k, v := range s.Mem {
			n.Mem[k] = v
		}
	}
	return n
}

// ---- typed accessors -------------------------------------------------------------------------

func (s *State) Pods() []*corev1.Pod {
	var out []*corev1.Pod
	for _, o := range s.Objs {
		if p, ok := o.O.(*corev1.Pod); ok {
			out = append(out, p)
		}
	}
	return out
}

func (s *State) Nodes() []*corev1.Node {
	var out []*corev1.Node
	for _, o := range s.Objs {
		if p, ok := o.O.(*corev1.Node); ok {
			out = append(out, p)
		}
	}
	return out
}

func (s *State) EDSs() []*v1.ExtendedDaemonSet {
	var out []*v1.ExtendedDaemonSet
	for _, o := range s.Objs {
		if p, ok := o.O.(*v1.ExtendedDaemonSet); ok {
			out = append(out, p)
		}
	}
	return out
}

func (s *State) ERSs() []*v1.ExtendedDaemonSetReplicaSet {
	var out []*v1.ExtendedDaemonSetReplicaSet
	for _, o := range s.Objs {
		if p, ok := o.O.(*v1.ExtendedDaemonSetReplicaSet); ok {
			out = append(out, p)
		}
	}
	return out
}

func (s *State) Settings() []*v1.ExtendedDaemonsetSetting {
	var out []*v1.ExtendedDaemonsetSetting
	for _, o := range s.Objs {
		if p, ok := o.O.(*v1.ExtendedDaemonsetSetting); ok {
			out = append(out, p)
		}
	}
	return out
}

func (s *State) EDS(ns, name string) *v1.ExtendedDaemonSet {
	for _, e := range s.EDSs() {
		if e.Namespace == ns && e.Name == name {
			return e
		}
	}
	return nil
}

// Has reports whether an object of the kind exists.
func (s *State) Has(kind, ns, name string) bool {
	for _, o := range s.Objs {
		if o.Kind == kind && o.O.GetNamespace() == ns && o.O.GetName() == name {
			return true
		}
	}
	return false
}

func (s *State) ERS(ns, name string) *v1.ExtendedDaemonSetReplicaSet {
	for _, e := range s.ERSs() {
		if e.Namespace == ns && e.Name == name {
			return e
		}
	}
	return nil
}

func (s *State) Pod(ns, name string) *corev1.Pod {
	for _, e := range s.Pods() {
		if e.Namespace == ns && e.Name == name {
			return e
		}
	}
	return nil
}

func (s *State) Node(name string) *corev1.Node {
	for _, e := range s.Nodes() {
		if e.Name == name {
			return e
		}
	}
	return nil
}

// ---- canonical key ---------------------------------------------------------------------------

// Key is the canonical key of the state (hex SHA-256 prefix): per-object digests (JSON without
// resourceVersion; cached on the immutable object), the instant, the back-off table, monitor memory, budget.
// Timestamps are absolute: two states are merged only if they agree on every timestamp and on the clock.
func (s *State) Key() string {
	if s.key != "" {
		return s.key
	}
	h := sha256.New()
	for _, o := range s.Objs {
		d := o.Digest()
		h.Write(d[:])
	}
	fmt.Fprintf(h, "now %d|", s.Now/time.Second)
	if len(s.Backoff) > 0 {
		ks := make([]string, 0, len(s.Backoff))
		for k := range s.Backoff {
			ks = append(ks, k)
		}
		sort.Strings(ks)
		for _, k := range ks {
			e := s.Backoff[k]
			fmt.Fprintf(h, "bo %s %d %d|", k, e.Backoff/time.Second, (s.Now-e.LastUpdate)/time.Second)
		}
	}
	if len(s.Mem) > 0 {
		ks := make([]string, 0, len(s.Mem))
		for k := range s.Mem {
			ks = append(ks, k)
		}
		sort.Strings(ks)
		for _, k := range ks {
			fmt.Fprintf(h, "mem %s=%s|", k, s.Mem[k])
		}
	}
	fmt.Fprintf(h, "budget %d", s.Budget)
	s.key = fmt.Sprintf("%x", h.Sum(nil)[:16])
	return s.key
}

// Describe gives a short human-readable rendering of a state (for replays and samples).
func (s *State) Describe() []string {
	var out []string
	for _, w := range s.Objs {
		o := w.O
		switch x := o.(type) {
		case *corev1.Node:
			t := ""
			for _, tt := range x.Spec.Taints {
				t += " taint:" + tt.Key + ":" + string(tt.Effect)
			}
			out = append(out, fmt.Sprintf("node %s labels=%v%s", x.Name, x.Labels, t))
		case *corev1.Pod:
			st := string(x.Status.Phase)
			if st == "" {
				st = "Pending"
			}
			if x.DeletionTimestamp != nil {
				st += ",terminating"
			}
			rdy := "notready"
			for _, c := range x.Status.Conditions {
				if c.Type == corev1.PodReady && c.Status == corev1.ConditionTrue {
					rdy = "ready"
				}
			}
			rc := int32(0)
			for _, c := range x.Status.ContainerStatuses {
				rc += c.RestartCount
			}
			out = append(out, fmt.Sprintf("pod %s/%s node=%s bound=%v %s %s hash=%.6s restarts=%d canary=%s", x.Namespace, x.Name, TargetNode(x), x.Spec.NodeName != "", st, rdy,
				x.Annotations[v1.MD5ExtendedDaemonSetAnnotationKey], rc, x.Labels[v1.ExtendedDaemonSetReplicaSetCanaryLabelKey]))
		case *v1.ExtendedDaemonSet:
			c := "nil"
			if x.Status.Canary != nil {
				c = fmt.Sprintf("{rs=%s nodes=%v}", x.Status.Canary.ReplicaSet, x.Status.Canary.Nodes)
			}
			out = append(out, fmt.Sprintf("eds %s/%s tpl=%s active=%s canary=%s state=%s d/c/r/a/u=%d/%d/%d/%d/%d annot=%v", x.Namespace, x.Name, TemplateTag(&x.Spec.Template),
				x.Status.ActiveReplicaSet, c, x.Status.State, x.Status.Desired, x.Status.Current, x.Status.Ready, x.Status.Available, x.Status.UpToDate, edsAnnots(x)))
		case *v1.ExtendedDaemonSetReplicaSet:
			conds := []string{}
			for _, c := range x.Status.Conditions {
				if c.Status == corev1.ConditionTrue {
					conds = append(conds, string(c.Type))
				}
			}
			out = append(out, fmt.Sprintf("ers %s/%s tpl=%s status=%s d/c/r/a=%d/%d/%d/%d true=%v", x.Namespace, x.Name, TemplateTag(&x.Spec.Template), x.Status.Status,
				x.Status.Desired, x.Status.Current, x.Status.Ready, x.Status.Available, conds))
		case *v1.ExtendedDaemonsetSetting:
			out = append(out, fmt.Sprintf("setting %s/%s status=%s err=%q", x.Namespace, x.Name, x.Status.Status, x.Status.Error))
		default:
			out = append(out, fmt.Sprintf("%s %s/%s", kindOf(o), o.GetNamespace(), o.GetName()))
		}
	}
	out = append(out, fmt.Sprintf("t=+%ds budget=%d backoff=%d", s.Now/time.Second, s.Budget, len(s.Backoff)))
	return out
}

func edsAnnots(e *v1.ExtendedDaemonSet) map[string]string {
	m := map[string]string{}
	for k, v := range e.Annotations {
		if strings.HasPrefix(k, "extendeddaemonset.datadoghq.com/") {
			m[strings.TrimPrefix(k, "extendeddaemonset.datadoghq.com/")] = v
		}
	}
	return m
}

// TemplateTag returns the short tag of a template of the scenario alphabet (its first container's image).
func TemplateTag(t *corev1.PodTemplateSpec) string {
	if len(t.Spec.Containers) == 0 {
		return "?"
	}
	return t.Spec.Containers[0].Image
}

// ---- live world: store + real reconcilers ------------------------------------------------------

// Config holds controller-level options.
type Config struct {
	AffinityMode          bool // IsNodeAffinitySupported: pods pinned by affinity and bound by the scheduler model
	DefaultValidationMode v1.ExtendedDaemonSetSpecStrategyCanaryValidationMode
	// UseFake: back the API layer by controller-runtime's fake client instead of the in-memory store (conformance runs).
	UseFake bool
}

// Live is a restored state: a store and fresh reconciler instances. Only valid inside the bubble that built it.
type Live struct {
	API *API
	Cfg Config
	EDS *edsctrl.Reconciler
	ERS *ersctrl.Reconciler
	Set *setctrl.Reconciler
	PT  *ptctrl.Reconciler
	// PreERS: the replica sets as they were just before the last R_eds of a closure round (for OnStep oracles).
	PreERS []v1.ExtendedDaemonSetReplicaSet
}

type nopRecorder struct{}

func (nopRecorder) Event(runtime.Object, string, string, string)                  {}
func (nopRecorder) Eventf(runtime.Object, string, string, string, ...interface{}) {}
func (nopRecorder) AnnotatedEventf(runtime.Object, map[string]string, string, string, string, ...interface{}) {
}

var _ record.EventRecorder = nopRecorder{}

// NewLive builds the store and the four real reconcilers; must run inside a synctest bubble whose
// clock already shows s.Now.
func NewLive(s *State, cfg Config) *Live {
	api := NewAPI(s.Objs)
	if cfg.UseFake {
		api = NewAPIFake(s.Objs)
	}
	l := &Live{API: api, Cfg: cfg}
	log := logr.Discard()
	vm := cfg.DefaultValidationMode
	if vm == "" {
		vm = v1.ExtendedDaemonSetSpecStrategyCanaryValidationModeAuto
	}
	var err error
	l.EDS, err = edsctrl.NewReconciler(edsctrl.ReconcilerOptions{DefaultValidationMode: vm}, api, Scheme, log, nopRecorder{})
	must(err)
	l.ERS, err = ersctrl.NewReconciler(ersctrl.ReconcilerOptions{IsNodeAffinitySupported: cfg.AffinityMode}, api, Scheme, log, nopRecorder{})
	must(err)
	l.Set, err = setctrl.NewReconciler(setctrl.ReconcilerOptions{}, api, Scheme, log, nopRecorder{})
	must(err)
	l.PT, err = ptctrl.NewReconciler(ptctrl.ReconcilerOptions{}, api, Scheme, log, nopRecorder{})
	must(err)
	setBackoff(l.ERS.VerifBackoff(), s.Backoff)
	return l
}

// RestartControllers replaces the reconcilers by fresh instances (empty in-memory state).
func (l *Live) RestartControllers() {
	log := logr.Discard()
	vm := l.Cfg.DefaultValidationMode
	if vm == "" {
		vm = v1.ExtendedDaemonSetSpecStrategyCanaryValidationModeAuto
	}
	l.EDS, _ = edsctrl.NewReconciler(edsctrl.ReconcilerOptions{DefaultValidationMode: vm}, l.API, Scheme, log, nopRecorder{})
	l.ERS, _ = ersctrl.NewReconciler(ersctrl.ReconcilerOptions{IsNodeAffinitySupported: l.Cfg.AffinityMode}, l.API, Scheme, log, nopRecorder{})
	l.Set, _ = setctrl.NewReconciler(setctrl.ReconcilerOptions{}, l.API, Scheme, log, nopRecorder{})
	l.PT, _ = ptctrl.NewReconciler(ptctrl.ReconcilerOptions{}, l.API, Scheme, log, nopRecorder{})
}

// Capture snapshots the live world into a State.
func (l *Live) Capture(prev *State) *State {
	n := &State{Objs: l.API.Snapshot(), Now: time.Since(Epoch).Truncate(time.Second), Budget: prev.Budget}
	n.Backoff = getBackoff(l.ERS.VerifBackoff())
	if len(prev.Mem) > 0 {
		n.Mem = map[string]string{}
		for k, v := range prev.Mem {
			n.Mem[k] = v
		}
	}
	return n
}

// back-off table access through reflection (client-go v0.31.1: perItemBackoff map[string]*backoffEntry{backoff, lastUpdate}).
func backoffMap(b *flowcontrol.Backoff) reflect.Value {
	f := reflect.ValueOf(b).Elem().FieldByName("perItemBackoff")
	return reflect.NewAt(f.Type(), unsafe.Pointer(f.UnsafeAddr())).Elem()
}

func getBackoff(b *flowcontrol.Backoff) map[string]BackoffEntry {
	b.Lock()
	defer b.Unlock()
	m := backoffMap(b)
	if m.Len() == 0 {
		return nil
	}
	out := map[string]BackoffEntry{}
	it := m.MapRange()
	for it.Next() {
		e := it.Value().Elem()
		bo := e.FieldByName("backoff")
		lu := e.FieldByName("lastUpdate")
		d := *(*time.Duration)(unsafe.Pointer(bo.UnsafeAddr()))
		t := *(*time.Time)(unsafe.Pointer(lu.UnsafeAddr()))
		out[it.Key().String()] = BackoffEntry{Backoff: d, LastUpdate: t.Sub(Epoch)}
	}
	return out
}

func setBackoff(b *flowcontrol.Backoff, entries map[string]BackoffEntry) {
	if len(entries) == 0 {
		return
	}
	b.Lock()
	defer b.Unlock()
	m := backoffMap(b)
	et := m.Type().Elem().Elem()
	for k, e := range entries {
		pe := reflect.New(et)
		bo := pe.Elem().FieldByName("backoff")
		lu := pe.Elem().FieldByName("lastUpdate")
		*(*time.Duration)(unsafe.Pointer(bo.UnsafeAddr())) = e.Backoff
		*(*time.Time)(unsafe.Pointer(lu.UnsafeAddr())) = Epoch.Add(e.LastUpdate)
		m.SetMapIndex(reflect.ValueOf(k), pe)
	}
}

// InBubble runs f inside a fresh synctest bubble whose clock shows Epoch+at.
func InBubble(t *testing.T, at time.Duration, f func()) {
	synctest.Test(t, func(t *testing.T) {
		if at > 0 {
			time.Sleep(at)
		}
		f()
	})
}

// ReconcileResult of a controller step.
type ReconcileResult struct {
	Res reconcile.Result
	Err error
	// Panic is the recovered panic value of the reconcile, if any.
	Panic interface{}
	// PanicSite is the innermost frame of /repo on the panicking stack.
	PanicSite string
}

func req(ns, name string) reconcile.Request {
	return reconcile.Request{NamespacedName: types.NamespacedName{Namespace: ns, Name: name}}
}

func guard(rr *ReconcileResult, f func() (reconcile.Result, error)) {
	defer func() {
		if p := recover(); p != nil {
			rr.Panic = p
			rr.PanicSite = PanicSite(debug.Stack())
		}
	}()
	rr.Res, rr.Err = f()
}

func (l *Live) ReconcileEDS(ns, name string) (rr ReconcileResult) {
	guard(&rr, func() (reconcile.Result, error) { return l.EDS.Reconcile(context.Background(), req(ns, name)) })
	return
}

func (l *Live) ReconcileERS(ns, name string) (rr ReconcileResult) {
	guard(&rr, func() (reconcile.Result, error) { return l.ERS.Reconcile(context.Background(), req(ns, name)) })
	return
}

func (l *Live) ReconcileSetting(ns, name string) (rr ReconcileResult) {
	guard(&rr, func() (reconcile.Result, error) { return l.Set.Reconcile(context.Background(), req(ns, name)) })
	return
}

func (l *Live) ReconcilePT(ns, name string) (rr ReconcileResult) {
	guard(&rr, func() (reconcile.Result, error) { return l.PT.Reconcile(context.Background(), req(ns, name)) })
	return
}

// PanicSite extracts the innermost function of the code under test from a stack trace.
func PanicSite(stack []byte) string {
	lines := strings.Split(string(stack), "\n")
	seenPanic := false
	for _, ln := range lines {
		if strings.HasPrefix(ln, "panic(") {
			seenPanic = true
			continue
		}
		if seenPanic && strings.HasPrefix(ln, "github.com/DataDog/extendeddaemonset/") {
			f := strings.TrimPrefix(ln, "github.com/DataDog/extendeddaemonset/")
			if i := strings.LastIndex(f, "("); i > 0 {
				f = f[:i]
			}
			return f
		}
	}
	return "unknown"
}
