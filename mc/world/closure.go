package world

// closure.go — the fair closure: a deterministic, fault-free driver used as a liveness oracle
// (convergence, rollback completion, recovery) from any state.

import (
	"context"
	"crypto/sha256"
	"encoding/json"
	"fmt"
	"testing"
	"time"

	corev1 "k8s.io/api/core/v1"

	v1 "github.com/DataDog/extendeddaemonset/api/v1alpha1"
)

// ClosureOpts tunes the driver.
type ClosureOpts struct {
	MaxRounds int
	// NoKubelet: pods are not made ready / removed (used to observe controller-only behaviour).
	NoKubelet bool
	// Validate: when a canary is pending and not progressing, issue `kubectl-eds canary validate`.
	Validate bool
	// OnStep is called after every controller step with the calls it made.
	OnStep func(ev Event, log []*Call, rr ReconcileResult, l *Live)
	// MaxStep caps the clock advance per round (0 = follow RequeueAfter): keeps the driver from sleeping through
	// a long canary duration when only the short-term reaction is of interest.
	MaxStep time.Duration
	// StartDelay: let this much time pass before the first round (e.g. so that a canary duration has elapsed when the
	// controllers first look).
	StartDelay time.Duration
	// Resume: first remove the rolling-update-paused / rollout-frozen annotations (a legal user action).
	Resume bool
	// ReverseERS: reconcile the replica sets in descending instead of ascending name order within a round (the fair
	// driver is one fair order; where in-memory state is shared between replica-set syncs - the failed-pod back-off -
	// the other order is run as well)
	ReverseERS bool
	// SkipJumps: do not perform the +3/+6/+11 min persistence jumps.
	SkipJumps bool
	// KeepRounds: keep running this many extra rounds after the fixpoint (default 0).
	Trace bool
}

// ClosureResult is the outcome of a closure.
type ClosureResult struct {
	Converged bool
	Rounds    int
	Final     *State
	Trace     []string
	// PodWrites in the last two rounds before the fixpoint (always 0 when converged)
	Why string
}

// keyNoTime: canonical hash of the objects with every timestamp removed.
func keyNoTime(s *State) string {
	h := sha256.New()
	for _, o := range s.Objs {
		b, _ := json.Marshal(o.O)
		var v interface{}
		_ = json.Unmarshal(b, &v)
		nb, _ := json.Marshal(dropTimes(v))
		h.Write([]byte(o.Kind))
		h.Write(nb)
	}
	return fmt.Sprintf("%x", h.Sum(nil)[:12])
}

func dropTimes(v interface{}) interface{} {
	switch x := v.(type) {
	case map[string]interface{}:
		delete(x, "resourceVersion")
		delete(x, "managedFields")
		for k, e := range x {
			x[k] = dropTimes(e)
		}
		return x
	case []interface{}:
		for i := range x {
			x[i] = dropTimes(x[i])
		}
		return x
	case string:
		if len(x) == 20 && x[4] == '-' && x[10] == 'T' && x[19] == 'Z' {
			return "@"
		}
	}
	return v
}

func podWrites(log []*Call) int {
	n := 0
	for _, c := range log {
		if c.Kind == "Pod" && (c.Verb == "create" || c.Verb == "delete") {
			n++
		}
	}
	return n
}

// round runs one fair round on the live world; returns pod create/delete count and the smallest positive RequeueAfter.
func (l *Live) round(s *State, sc *Scenario, o *ClosureOpts, trace *[]string) (int, time.Duration) {
	ctx := context.Background()
	in := l.API.Inner()
	if !o.NoKubelet {
		pods := &corev1.PodList{}
		must(in.List(ctx, pods))
		for i := range pods.Items {
			p := &pods.Items[i]
			if p.DeletionTimestamp != nil {
				RemovePod(ctx, in, p)
				continue
			}
			if p.Status.Phase == corev1.PodFailed || p.Status.Phase == corev1.PodUnknown {
				continue
			}
			if p.Status.Phase != corev1.PodRunning || !IsReady(p) {
				MakeReady(ctx, in, p)
			}
		}
		GC(ctx, in)
	}
	writes := 0
	var minRequeue time.Duration
	note := func(ev Event, rr ReconcileResult) {
		writes += podWrites(l.API.Log)
		if rr.Res.RequeueAfter > 0 && (minRequeue == 0 || rr.Res.RequeueAfter < minRequeue) {
			minRequeue = rr.Res.RequeueAfter
		}
		if o.OnStep != nil {
			o.OnStep(ev, l.API.Log, rr, l)
		}
		if trace != nil && o.Trace {
			*trace = append(*trace, fmt.Sprintf("%s -> %v", ev, CallStrings(writesOnly(l.API.Log))))
		}
	}
	edss := &v1.ExtendedDaemonSetList{}
	must(in.List(ctx, edss))
	for _, e := range edss.Items {
		if o.OnStep != nil {
			pre := &v1.ExtendedDaemonSetReplicaSetList{}
			must(in.List(ctx, pre))
			l.PreERS = pre.Items
		}
		l.API.ResetLog()
		rr := l.ReconcileEDS(e.Namespace, e.Name)
		note(Event{K: "R_eds", A: e.Namespace + "/" + e.Name}, rr)
	}
	erss := &v1.ExtendedDaemonSetReplicaSetList{}
	must(in.List(ctx, erss))
	if o.ReverseERS {
		for i, j := 0, len(erss.Items)-1; i < j; i, j = i+1, j-1 {
			erss.Items[i], erss.Items[j] = erss.Items[j], erss.Items[i]
		}
	}
	for _, e := range erss.Items {
		l.API.ResetLog()
		rr := l.ReconcileERS(e.Namespace, e.Name)
		note(Event{K: "R_ers", A: e.Namespace + "/" + e.Name}, rr)
	}
	for _, e := range edss.Items {
		l.API.ResetLog()
		rr := l.ReconcilePT(e.Namespace, e.Name)
		rr.Res.RequeueAfter = 0
		note(Event{K: "R_pt", A: e.Namespace + "/" + e.Name}, rr)
	}
	sets := &v1.ExtendedDaemonsetSettingList{}
	must(in.List(ctx, sets))
	for _, e := range sets.Items {
		l.API.ResetLog()
		rr := l.ReconcileSetting(e.Namespace, e.Name)
		note(Event{K: "R_set", A: e.Namespace + "/" + e.Name}, rr)
	}
	return writes, minRequeue
}

func writesOnly(log []*Call) []*Call {
	var out []*Call
	for _, c := range log {
		if c.IsWrite() {
			out = append(out, c)
		}
	}
	return out
}

func reconcileFrequency(l *Live) time.Duration {
	edss := &v1.ExtendedDaemonSetList{}
	must(l.API.Inner().List(context.Background(), edss))
	d := time.Second
	for _, e := range edss.Items {
		if e.Spec.Strategy.ReconcileFrequency != nil && e.Spec.Strategy.ReconcileFrequency.Duration > d {
			d = e.Spec.Strategy.ReconcileFrequency.Duration
		}
	}
	return d
}

// Closure drives the world from s to a fixpoint (or gives up after MaxRounds).
func Closure(t *testing.T, sc *Scenario, s *State, o ClosureOpts) ClosureResult {
	var res ClosureResult
	if o.MaxRounds == 0 {
		o.MaxRounds = 12 + 6*len(s.Nodes()) + 4*len(s.Pods())
	}
	InBubble(t, s.Now, func() {
		if o.StartDelay > 0 {
			time.Sleep(o.StartDelay)
		}
		l := NewLive(s, sc.Cfg)
		cur := s
		if o.Resume {
			for _, e := range s.EDSs() {
				for _, k := range []string{"rolling-update-paused", "rollout-frozen"} {
					if _, ok := Annot(e, k); ok {
						cur = Apply(l, cur, Event{K: "annotate", A: nn(e), B: k + "-"}, sc.Tpls).Next
					}
				}
			}
		}
		stable := 0
		lastKey := ""
		validated := false
		heldJumps := 0
		for r := 1; r <= o.MaxRounds; r++ {
			w, rq := l.round(cur, sc, &o, &res.Trace)
			res.Rounds = r
			cur = l.Capture(cur)
			k := keyNoTime(cur)
			if w == 0 && k == lastKey {
				stable++
			} else {
				stable = 0
			}
			lastKey = k
			if stable >= 2 && heldJumps < 8 && hasLiveFailedPod(cur) {
				// quiet, but a Failed pod is still there: its deletion is held back by the replica-set controller's back-off
				// (10 s, doubling), for which no requeue is asked. Let that much time pass before calling it a fixpoint.
				heldJumps++
				time.Sleep(time.Duration(10<<uint(heldJumps-1)) * time.Second)
				stable = 0
				continue
			}
			if stable >= 2 {
				// a pending canary that will never move by itself: validate it (a legal history), once
				if o.Validate && !validated {
					if e := pendingCanary(cur); e != nil {
						validated = true
						out := Apply(l, cur, Event{K: "kubectl", A: nn(e), B: "canary-validate"}, sc.Tpls)
						if o.Trace {
							res.Trace = append(res.Trace, fmt.Sprintf("kubectl canary validate %s err=%v", nn(e), out.CmdErr))
						}
						cur = out.Next
						stable = 0
						continue
					}
				}
				res.Converged = true
				break
			}
			step := rq
			if step <= 0 {
				step = reconcileFrequency(l)
			}
			if step < time.Second {
				step = time.Second
			}
			if o.MaxStep > 0 && step > o.MaxStep {
				step = o.MaxStep
			}
			time.Sleep(step.Truncate(time.Second) + time.Second*0)
		}
		if res.Converged && !o.SkipJumps {
			for _, j := range []time.Duration{3 * time.Minute, 3 * time.Minute, 5 * time.Minute} {
				time.Sleep(j)
				before := podSet(cur)
				for i := 0; i < 2; i++ {
					w, _ := l.round(cur, sc, &o, &res.Trace)
					cur = l.Capture(cur)
					if w != 0 || podSet(cur) != before {
						res.Converged = false
						res.Why = fmt.Sprintf("fixpoint did not persist after a %v jump: %d pod writes", j, w)
					}
				}
			}
		}
		if !res.Converged && res.Why == "" {
			res.Why = fmt.Sprintf("no fixpoint within %d rounds", o.MaxRounds)
		}
		res.Final = cur
	})
	return res
}

// hasLiveFailedPod: a pod in phase Failed that is not being deleted.
func hasLiveFailedPod(s *State) bool {
	for _, p := range s.Pods() {
		if p.Status.Phase == corev1.PodFailed && p.DeletionTimestamp == nil {
			return true
		}
	}
	return false
}

func podSet(s *State) string {
	out := ""
	for _, p := range s.Pods() {
		out += fmt.Sprintf("%s/%s@%s#%s|", p.Namespace, p.Name, TargetNode(p), PodHash(p))
	}
	return out
}

// pendingCanary returns an ExtendedDaemonSet whose canary is in progress.
func pendingCanary(s *State) *v1.ExtendedDaemonSet {
	for _, e := range s.EDSs() {
		if e.Status.Canary != nil && e.Status.Canary.ReplicaSet != "" {
			return e
		}
	}
	return nil
}
