package world

// mon_pod.go — C10 as a transition monitor: every pod a replica-set sync creates is pinned, labelled, owned and
// carries the resources annotation > valid setting > template, judged on the state the sync read.

import (
	"encoding/json"
	"fmt"

	corev1 "k8s.io/api/core/v1"
	apiequality "k8s.io/apimachinery/pkg/api/equality"

	v1 "github.com/DataDog/extendeddaemonset/api/v1alpha1"
)

// ExpectedResources returns the acceptable resource requirements of container name for a pod of eds on node
// (several when more than one valid setting selects the node — C18 decides that situation).
func ExpectedResources(pre *State, eds *v1.ExtendedDaemonSet, rs *v1.ExtendedDaemonSetReplicaSet, node *corev1.Node, name string) []corev1.ResourceRequirements {
	key := fmt.Sprintf("resources.extendeddaemonset.datadoghq.com/%s.%s.%s", eds.Namespace, eds.Name, name)
	if val, ok := node.Annotations[key]; ok {
		var r corev1.ResourceRequirements
		if json.Unmarshal([]byte(val), &r) == nil {
			return []corev1.ResourceRequirements{r}
		}
	}
	var out []corev1.ResourceRequirements
	anySetting := false
	for _, s := range pre.Settings() {
		if s.Namespace != eds.Namespace || s.Spec.Reference == nil || s.Spec.Reference.Name != eds.Name || s.Status.Status != v1.ExtendedDaemonsetSettingStatusValid {
			continue
		}
		if m, usable := selectorMatches(&s.Spec.NodeSelector, node.Labels); !usable || !m {
			continue
		}
		anySetting = true
		found := false
		for _, c := range s.Spec.Containers {
			if c.Name == name {
				out = append(out, c.Resources)
				found = true
			}
		}
		if !found {
			for _, c := range rs.Spec.Template.Spec.Containers {
				if c.Name == name {
					out = append(out, c.Resources)
				}
			}
		}
	}
	if anySetting {
		return out
	}
	for _, c := range rs.Spec.Template.Spec.Containers {
		if c.Name == name {
			return []corev1.ResourceRequirements{c.Resources}
		}
	}
	return []corev1.ResourceRequirements{{}}
}

// CheckCreatedPod judges one created pod. Returns (signature, message) pairs.
func CheckCreatedPod(pre *State, eds *v1.ExtendedDaemonSet, rs *v1.ExtendedDaemonSetReplicaSet, p *corev1.Pod, affinityMode bool) [][2]string {
	var out [][2]string
	add := func(sig, msg string) { out = append(out, [2]string{sig, msg}) }
	n := TargetNode(p)
	node := pre.Node(n)
	if affinityMode {
		ok := p.Spec.NodeName == "" && p.Spec.Affinity != nil && p.Spec.Affinity.NodeAffinity != nil && p.Spec.Affinity.NodeAffinity.RequiredDuringSchedulingIgnoredDuringExecution != nil
		if ok {
			terms := p.Spec.Affinity.NodeAffinity.RequiredDuringSchedulingIgnoredDuringExecution.NodeSelectorTerms
			ok = len(terms) > 0
			for _, tm := range terms {
				found := 0
				for _, f := range tm.MatchFields {
					if f.Key == "metadata.name" {
						if f.Operator == corev1.NodeSelectorOpIn && len(f.Values) == 1 && f.Values[0] == n {
							found++
						} else {
							ok = false
						}
					}
				}
				if found != 1 {
					ok = false
				}
			}
		}
		if !ok {
			add("C10/pinned: pod is not bound to its node by a name affinity in every required term", n)
		}
	} else if p.Spec.NodeName == "" {
		add("C10/pinned: pod is not bound to its node by nodeName", "")
	}
	owned := false
	for _, o := range p.OwnerReferences {
		if o.Kind == "ExtendedDaemonSetReplicaSet" && o.Name == rs.Name && o.Controller != nil && *o.Controller {
			owned = true
		}
	}
	if !owned {
		add("C10/owner: pod is not controlled by its replica set", "")
	}
	if p.Labels[v1.ExtendedDaemonSetNameLabelKey] != eds.Name || p.Labels[v1.ExtendedDaemonSetReplicaSetNameLabelKey] != rs.Name || p.Namespace != eds.Namespace {
		add("C10/labels: ExtendedDaemonSet / replica-set name labels or namespace missing or wrong", fmt.Sprint(p.Labels))
	}
	if PodHash(p) != rs.Spec.TemplateGeneration {
		add("C10/hash: template hash annotation differs from the replica set's", "")
	}
	for _, want := range standardTolerations {
		found := false
		for _, got := range p.Spec.Tolerations {
			if got == want {
				found = true
			}
		}
		if !found {
			add("C10/tolerations: a default DaemonSet toleration is missing", want.Key)
		}
	}
	if node != nil {
		for _, ct := range p.Spec.Containers {
			okRes := false
			wants := ExpectedResources(pre, eds, rs, node, ct.Name)
			for _, w := range wants {
				if apiequality.Semantic.DeepEqual(ct.Resources, w) {
					okRes = true
				}
			}
			if !okRes {
				add("C10/resources: container resources are not annotation > valid setting > template", fmt.Sprintf("container %s on %s got %v want one of %v", ct.Name, n, ct.Resources, wants))
			}
		}
	}
	return out
}

// MonC10 — every pod created by a replica-set sync (with or without injected faults) is what C10 demands.
func MonC10(c *MonCtx) {
	if c.Out.Ev.K != "R_ers" {
		return
	}
	ns, name := split(c.Out.Ev.A)
	rs := c.Pre.ERS(ns, name)
	if rs == nil {
		return
	}
	eds := c.Pre.EDS(ns, ownerName(rs))
	if eds == nil {
		return
	}
	for _, call := range c.Out.Log {
		if call.Kind != "Pod" || call.Verb != "create" {
			continue
		}
		c.Antecedent("C10/create")
		for _, is := range CheckCreatedPod(c.Pre, eds, rs, call.Obj.(*corev1.Pod), c.Sc.Cfg.AffinityMode) {
			c.Violate("C10", is[0], is[1])
		}
	}
}
