package world

// mon_promo.go — C05: the promotion rule as a reference predicate and a transition monitor.

import (
	"fmt"
	"strings"
	"time"

	v1 "github.com/DataDog/extendeddaemonset/api/v1alpha1"
)

// PromotionFacts are the facts the promotion rule speaks about, on the state a reconcile read.
type PromotionFacts struct {
	NoCanary, Valid, Auto, Ended, EndedExactly, RestartQuiet, RestartExactly, Paused, Failed bool
}

func (f PromotionFacts) String() string {
	return fmt.Sprintf("nocanary=%v valid=%v auto=%v ended=%v restartQuiet=%v paused=%v failed=%v", f.NoCanary, f.Valid, f.Auto, f.Ended, f.RestartQuiet, f.Paused, f.Failed)
}

// Allowed: may status.activeReplicaSet switch to the replica set matching spec.template?
// Instants exactly on a threshold count as elapsed (the statement says "elapsed" / "at least").
func (f PromotionFacts) Allowed() bool {
	if f.NoCanary || f.Valid {
		return true
	}
	return f.Auto && f.Ended && f.RestartQuiet && !f.Paused && !f.Failed
}

// Promotion computes the facts for eds and the up-to-date replica set rs at instant now.
func Promotion(eds *v1.ExtendedDaemonSet, rs *v1.ExtendedDaemonSetReplicaSet, now time.Time) PromotionFacts {
	var f PromotionFacts
	c := eds.Spec.Strategy.Canary
	if c == nil {
		f.NoCanary = true
		return f
	}
	if v, ok := Annot(eds, "canary-valid"); ok && v == rs.Name {
		f.Valid = true
	}
	f.Auto = c.ValidationMode != v1.ExtendedDaemonSetSpecStrategyCanaryValidationModeManual && c.Duration != nil
	if c.Duration != nil {
		end := rs.CreationTimestamp.Add(c.Duration.Duration)
		f.Ended = !now.Before(end)
		f.EndedExactly = now.Equal(end)
	}
	f.RestartQuiet = true
	if c.NoRestartsDuration != nil {
		if rc := ERSCond(rs, v1.ConditionTypePodRestarting); rc != nil && !rc.LastUpdateTime.IsZero() {
			q := rc.LastUpdateTime.Add(c.NoRestartsDuration.Duration)
			f.RestartQuiet = !now.Before(q)
			f.RestartExactly = now.Equal(q)
		}
	}
	f.Paused = AnnotTrue(eds, "canary-paused") || ERSCondTrue(rs, v1.ConditionTypeCanaryPaused)
	f.Failed = ERSCondTrue(rs, v1.ConditionTypeCanaryFailed)
	return f
}

// UpToDateRS returns the replica set of eds (same namespace, owner label) whose recorded hash matches spec.template.
func UpToDateRS(s *State, eds *v1.ExtendedDaemonSet) *v1.ExtendedDaemonSetReplicaSet {
	want := TemplateHash(&eds.Spec.Template)
	var found *v1.ExtendedDaemonSetReplicaSet
	for _, r := range s.ERSs() {
		if r.Namespace == eds.Namespace && r.Labels[v1.ExtendedDaemonSetNameLabelKey] == eds.Name && r.Annotations[v1.MD5ExtendedDaemonSetAnnotationKey] == want {
			found = r
		}
	}
	return found
}

// CheckPromotion judges one R_eds transition (pre -> post) against the promotion rule.
// Returns (signature, message) or "" when fine; antecedent reports whether the active replica set changed.
func CheckPromotion(pre, post *State, ns, name string) (sig, msg string, changed bool) {
	e0, e1 := pre.EDS(ns, name), post.EDS(ns, name)
	if e0 == nil || e1 == nil {
		return "", "", false
	}
	a0, a1 := e0.Status.ActiveReplicaSet, e1.Status.ActiveReplicaSet
	if a0 == a1 {
		// positive clause: recorded active replica set missing or empty => the matching one is adopted directly
		if up := UpToDateRS(pre, e0); up != nil && (a0 == "" || pre.ERS(ns, a0) == nil) && a1 != up.Name {
			return "C05/adopt: recorded active replica set is gone but the matching one was not adopted", fmt.Sprintf("active=%q uptodate=%s", a0, up.Name), false
		}
		return "", "", false
	}
	up := UpToDateRS(pre, e0)
	if up == nil || a1 != up.Name {
		return "C05/target: status.activeReplicaSet switched to a replica set that does not match spec.template", fmt.Sprintf("%q -> %q", a0, a1), true
	}
	if a0 == "" || pre.ERS(ns, a0) == nil {
		return "", "", true // adoption
	}
	now := Epoch.Add(pre.Now)
	f := Promotion(e0, up, now)
	if f.Allowed() {
		return "", "", true
	}
	mode := "manual"
	if f.Auto {
		mode = "auto"
	}
	return fmt.Sprintf("C05/promote: promoted although not allowed: mode=%s ended=%v restartQuiet=%v paused=%v failed=%v valid=%v", mode, f.Ended, f.RestartQuiet, f.Paused, f.Failed, f.Valid),
		fmt.Sprintf("%s/%s %s -> %s at +%ds: %s", ns, name, a0, a1, pre.Now/time.Second, f), true
}

// MonC05 is the transition monitor for BFS scenarios.
func MonC05(c *MonCtx) {
	// memory: replica sets (name and creation instant) that have been marked Canary-Failed at some point of this history,
	// including by a command that landed in the middle of a reconcile and whose write may not have survived it
	failedKey := func(r *v1.ExtendedDaemonSetReplicaSet) string {
		return fmt.Sprintf("failed:%s/%s@%d", r.Namespace, r.Name, r.CreationTimestamp.Unix())
	}
	mark := func(r *v1.ExtendedDaemonSetReplicaSet) {
		if c.Out.Next.Mem == nil {
			c.Out.Next.Mem = map[string]string{}
		}
		c.Out.Next.Mem[failedKey(r)] = "1"
	}
	for _, r := range c.Out.Next.ERSs() {
		if ERSCondTrue(r, v1.ConditionTypeCanaryFailed) {
			mark(r)
		}
	}
	if strings.HasPrefix(c.Out.Ev.B, "mid:canary-fail:") && c.Out.MidRan && c.Out.CmdErr == nil {
		ens, ename := split(strings.SplitN(c.Out.Ev.B, ":", 3)[2])
		if e0 := c.Pre.EDS(ens, ename); e0 != nil && e0.Status.Canary != nil {
			if r := c.Pre.ERS(ens, e0.Status.Canary.ReplicaSet); r != nil {
				mark(r)
				c.Antecedent("C05/fail-overtook-reconcile")
			}
		}
	}
	statusStored := false
	for _, call := range c.Out.Log {
		if call.Kind == "ExtendedDaemonSetReplicaSet" && call.Sub == "status" && call.IsWrite() && call.Err == nil && call.Fault == "" {
			statusStored = true
		}
	}
	if c.Out.Ev.K == "R_ers" && statusStored && !strings.HasPrefix(c.Out.Ev.B, "mid:") {
		// (also when a pod creation / deletion of the same sync failed: what the sync observed on the canary pods is stored
		// as long as its status write succeeds)
		// the promotion rule counts from the last canary pod restart as the canary replica set records it: a fault-free
		// full sync of the canary must record the latest restart among its up-to-date pods (of any of their containers)
		rns, rname := split(c.Out.Ev.A)
		if v := BuildSyncView(c.Pre, c.Out.Log, rns, rname); v != nil && v.Role == "canary" && v.FullSync && v.EDS.Spec.Strategy.Canary != nil {
			var latest time.Time
			for n := range v.Canary {
				k := v.Keeper[n]
				if k == nil || k.DeletionTimestamp != nil || PodHash(k) != v.RS.Spec.TemplateGeneration {
					continue
				}
				for _, cs := range k.Status.ContainerStatuses {
					if cs.RestartCount > 0 && cs.LastTerminationState.Terminated != nil && cs.LastTerminationState.Terminated.FinishedAt.Time.After(latest) {
						latest = cs.LastTerminationState.Terminated.FinishedAt.Time
					}
				}
			}
			if !latest.IsZero() {
				c.Antecedent("C05/restart-recorded")
				post := c.Out.Next.ERS(rns, rname)
				var rec time.Time
				if post != nil {
					if rc := ERSCond(post, v1.ConditionTypePodRestarting); rc != nil {
						rec = rc.LastUpdateTime.Time
					}
				}
				if rec.Before(latest.Truncate(time.Second)) {
					c.Violate("C05", "C05/restart-recorded: a full sync of the canary replica set did not record the latest restart of its pods (noRestartsDuration would be counted from an older one)",
						fmt.Sprintf("latest restart %s, recorded %s", latest.UTC().Format(time.RFC3339), rec.UTC().Format(time.RFC3339)))
				}
			}
		}
	}
	if c.Out.Ev.K != "R_eds" {
		return
	}
	ns, name := split(c.Out.Ev.A)
	if e0, e1 := c.Pre.EDS(ns, name), c.Out.Next.EDS(ns, name); e0 != nil && e1 != nil && e0.Status.ActiveReplicaSet != e1.Status.ActiveReplicaSet &&
		e0.Status.ActiveReplicaSet != "" && e0.Spec.Strategy.Canary != nil && c.Pre.ERS(ns, e0.Status.ActiveReplicaSet) != nil {
		if r := c.Pre.ERS(ns, e1.Status.ActiveReplicaSet); r != nil && c.Pre.Mem[failedKey(r)] != "" {
			if v, ok := Annot(e0, "canary-valid"); !ok || v != r.Name {
				c.Violate("C05", "C05/failed-lost: a canary that had been marked failed was promoted without validation (the mark did not survive)",
					fmt.Sprintf("%s marked failed earlier in this history; Canary-Failed now %v", r.Name, ERSCondTrue(r, v1.ConditionTypeCanaryFailed)))
			}
		}
	}
	sig, msg, changed := CheckPromotion(c.Pre, c.Out.Next, ns, name)
	if strings.HasPrefix(sig, "C05/adopt") && (hasFault(c.Out.Log) || c.Out.RR.Err != nil) {
		sig = "" // the positive clause is only promised for a reconcile that succeeded
	}
	if changed {
		c.Antecedent("C05/active-changed")
	}
	if sig != "" {
		c.Violate("C05", sig, msg)
	}
}
