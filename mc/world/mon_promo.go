package world

// mon_promo.go — C05: the promotion rule as a reference predicate and a transition monitor.

import (
	"fmt"
	"strings"
	"time"

	v1 "github.com/DataDog/extendeddaemonset/api/v1alpha1"
)

// PromotionFacts are the facts the promotion rule speaks about, on the state a reconcile read.
type PromotionFacts struct {
	NoCanary, Valid, Auto, Ended, EndedExactly, RestartQuiet, RestartExactly, Paused, Failed bool
}

func (f PromotionFacts) String() string {
	return fmt.Sprintf("nocanary=%v valid=%v auto=%v ended=%v restartQuiet=%v paused=%v failed=%v", f.NoCanary, f.Valid, f.Auto, f.Ended, f.RestartQuiet, f.Paused, f.Failed)
}

// Allowed: may status.activeReplicaSet switch to the replica set matching spec.template?
// Instants exactly on a threshold count as elapsed (the statement says "elapsed" / "at least").
func (f PromotionFacts) Allowed() bool {
	if f.NoCanary || f.Valid {
		return true
	}
	return f.Auto && f.Ended && f.RestartQuiet && !f.Paused && !f.Failed
}

// Promotion computes the facts for eds and the up-to-date replica set rs at instant now.
func Promotion(eds *v1.ExtendedDaemonSet, rs *v1.ExtendedDaemonSetReplicaSet, now time.Time) PromotionFacts {
	var f PromotionFacts
	c := eds.Spec.Strategy.Canary
	if c == nil {
		f.NoCanary = true
		return f
	}
	if v, ok := Annot(eds, "canary-valid"); ok && v == rs.Name {
		f.Valid = true
	}
	f.Auto = c.ValidationMode != v1.ExtendedDaemonSetSpecStrategyCanaryValidationModeManual && c.Duration != nil
	if c.Duration != nil {
		end := rs.CreationTimestamp.Add(c.Duration.Duration)
		f.Ended = !now.Before(end)
		f.EndedExactly = now.Equal(end)
	}
	f.RestartQuiet = true
	if c.NoRestartsDuration != nil {
		if rc := ERSCond(rs, v1.ConditionTypePodRestarting); rc != nil && !rc.LastUpdateTime.IsZero() {
			q := rc.LastUpdateTime.Add(c.NoRestartsDuration.Duration)
			f.RestartQuiet = !now.Before(q)
			f.RestartExactly = now.Equal(q)
		}
	}
	f.Paused = AnnotTrue(eds, "canary-paused") || ERSCondTrue(rs, v1.ConditionTypeCanaryPaused)
	f.Failed = ERSCondTrue(rs, v1.ConditionTypeCanaryFailed)
	return f
}

// UpToDateRS returns the replica set of eds (same namespace, owner label) whose recorded hash matches spec.template.
func UpToDateRS(s *State, eds *v1.ExtendedDaemonSet) *v1.ExtendedDaemonSetReplicaSet {
	want := TemplateHash(&eds.Spec.Template)
	var found *v1.ExtendedDaemonSetReplicaSet
	for _, r := range s.ERSs() {
		if r.Namespace == eds.Namespace && r.Labels[v1.ExtendedDaemonSetNameLabelKey] == eds.Name && r.Annotations[v1.MD5ExtendedDaemonSetAnnotationKey] == want {
			found = r
		}
	}
	return found
}

// CheckPromotion judges one R_eds transition (pre -> post) against the promotion rule.
// Returns (signature, message) or "" when fine; antecedent reports whether the active replica set changed.
func CheckPromotion(pre, post *State, ns, name string) (sig, msg string, changed bool) {
	e0, e1 := pre.EDS(ns, name), post.EDS(ns, name)
	if e0 == nil || e1 == nil {
		return "", "", false
	}
	a0, a1 := e0.Status.ActiveReplicaSet, e1.Status.ActiveReplicaSet
	if a0 == a1 {
		// positive clause: recorded active replica set missing or empty => the matching one is adopted directly
		if up := UpToDateRS(pre, e0); up != nil && (a0 == "" || pre.ERS(ns, a0) == nil) && a1 != up.Name {
			return "C05/adopt: recorded active replica set is gone but the matching one was not adopted", fmt.Sprintf("active=%q uptodate=%s", a0, up.Name), false
		}
		return "", "", false
	}
	up := UpToDateRS(pre, e0)
	if up == nil || a1 != up.Name {
		return "C05/target: status.activeReplicaSet switched to a replica set that does not match spec.template", fmt.Sprintf("%q -> %q", a0, a1), true
	}
	if a0 == "" || pre.ERS(ns, a0) == nil {
		return "", "", true // adoption
	}
	now := Epoch.Add(pre.Now)
	f := Promotion(e0, up, now)
	if f.Allowed() {
		return "", "", true
	}
	mode := "manual"
	if f.Auto {
		mode = "auto"
	}
	return fmt.Sprintf("C05/promote: promoted although not allowed: mode=%s ended=%v restartQuiet=%v paused=%v failed=%v valid=%v", mode, f.Ended, f.RestartQuiet, f.Paused, f.Failed, f.Valid),
		fmt.Sprintf("%s/%s %s -> %s at +%ds: %s", ns, name, a0, a1, pre.Now/time.Second, f), true
}

// MonC05 is the transition monitor for BFS scenarios.
func MonC05(c *MonCtx) {
	if c.Out.Ev.K != "R_eds" {
		return
	}
	ns, name := split(c.Out.Ev.A)
	sig, msg, changed := CheckPromotion(c.Pre, c.Out.Next, ns, name)
	if strings.HasPrefix(sig, "C05/adopt") && (hasFault(c.Out.Log) || c.Out.RR.Err != nil) {
		sig = "" // the positive clause is only promised for a reconcile that succeeded
	}
	if changed {
		c.Antecedent("C05/active-changed")
	}
	if sig != "" {
		c.Violate("C05", sig, msg)
	}
}
