package world

// ref.go — the reference library: small, boring predicates written independently of the code under test.

import (
	"crypto/md5"
	"encoding/hex"
	"encoding/json"
	"math"
	"strconv"
	"strings"

	corev1 "k8s.io/api/core/v1"
	"k8s.io/apimachinery/pkg/util/intstr"

	v1 "github.com/DataDog/extendeddaemonset/api/v1alpha1"
)

// TemplateHash is MD5 over the JSON encoding of the template.
func TemplateHash(t *corev1.PodTemplateSpec) string {
	b, err := json.Marshal(t)
	must(err)
	s := md5.Sum(b)
	return hex.EncodeToString(s[:])
}

// Resolve resolves an int-or-percent against total, rounding up. ok=false for malformed values.
func Resolve(v *intstr.IntOrString, total int) (int, bool) {
	if v == nil {
		return 0, false
	}
	if v.Type == intstr.Int {
		return int(v.IntVal), true
	}
	s := v.StrVal
	if !strings.HasSuffix(s, "%") {
		return 0, false
	}
	p, err := strconv.Atoi(strings.TrimSuffix(s, "%"))
	if err != nil {
		return 0, false
	}
	return int(math.Ceil(float64(p) * float64(total) / 100)), true
}

var standardTolerations = []corev1.Toleration{
	{Key: "node.kubernetes.io/not-ready", Operator: corev1.TolerationOpExists, Effect: corev1.TaintEffectNoExecute},
	{Key: "node.kubernetes.io/unreachable", Operator: corev1.TolerationOpExists, Effect: corev1.TaintEffectNoExecute},
	{Key: "node.kubernetes.io/disk-pressure", Operator: corev1.TolerationOpExists, Effect: corev1.TaintEffectNoSchedule},
	{Key: "node.kubernetes.io/memory-pressure", Operator: corev1.TolerationOpExists, Effect: corev1.TaintEffectNoSchedule},
	{Key: "node.kubernetes.io/unschedulable", Operator: corev1.TolerationOpExists, Effect: corev1.TaintEffectNoSchedule},
	{Key: "node.kubernetes.io/network-unavailable", Operator: corev1.TolerationOpExists, Effect: corev1.TaintEffectNoSchedule},
}

// StandardTolerations are the six default DaemonSet tolerations (as documented by Kubernetes).
func StandardTolerations() []corev1.Toleration { return standardTolerations }

func tolerates(t corev1.Toleration, taint corev1.Taint) bool {
	if t.Effect != "" && t.Effect != taint.Effect {
		return false
	}
	if t.Key != "" && t.Key != taint.Key {
		return false
	}
	switch t.Operator {
	case corev1.TolerationOpExists:
		return true
	case corev1.TolerationOpEqual, "":
		if t.Key == "" {
			return false // empty key requires Exists
		}
		return t.Value == taint.Value
	}
	return false
}

func matchExpr(labels map[string]string, r corev1.NodeSelectorRequirement) bool {
	val, has := labels[r.Key]
	switch r.Operator {
	case corev1.NodeSelectorOpIn:
		if !has {
			return false
		}
		for _, v := range r.Values {
			if v == val {
				return true
			}
		}
		return false
	case corev1.NodeSelectorOpNotIn:
		if !has {
			return true
		}
		for _, v := range r.Values {
			if v == val {
				return false
			}
		}
		return true
	case corev1.NodeSelectorOpExists:
		return has
	case corev1.NodeSelectorOpDoesNotExist:
		return !has
	case corev1.NodeSelectorOpGt, corev1.NodeSelectorOpLt:
		if !has || len(r.Values) != 1 {
			return false
		}
		a, e1 := strconv.ParseInt(val, 10, 64)
		b, e2 := strconv.ParseInt(r.Values[0], 10, 64)
		if e1 != nil || e2 != nil {
			return false
		}
		if r.Operator == corev1.NodeSelectorOpGt {
			return a > b
		}
		return a < b
	}
	return false
}

// Eligible: may a pod of this template run on the node?
func Eligible(node *corev1.Node, tpl *corev1.PodTemplateSpec) bool {
	for k, v := range tpl.Spec.NodeSelector {
		if node.Labels[k] != v {
			return false
		}
	}
	if a := tpl.Spec.Affinity; a != nil && a.NodeAffinity != nil && a.NodeAffinity.RequiredDuringSchedulingIgnoredDuringExecution != nil {
		ok := false
		for _, term := range a.NodeAffinity.RequiredDuringSchedulingIgnoredDuringExecution.NodeSelectorTerms {
			if len(term.MatchExpressions) == 0 && len(term.MatchFields) == 0 {
				continue
			}
			m := true
			for _, r := range term.MatchExpressions {
				if !matchExpr(node.Labels, r) {
					m = false
				}
			}
			for _, r := range term.MatchFields {
				if r.Key != "metadata.name" || len(r.Values) != 1 {
					m = false
					continue
				}
				switch r.Operator {
				case corev1.NodeSelectorOpIn:
					if r.Values[0] != node.Name {
						m = false
					}
				case corev1.NodeSelectorOpNotIn:
					if r.Values[0] == node.Name {
						m = false
					}
				default:
					m = false
				}
			}
			if m {
				ok = true
				break
			}
		}
		if !ok {
			return false
		}
	}
	tols := append(append([]corev1.Toleration{}, tpl.Spec.Tolerations...), standardTolerations...)
	for _, taint := range node.Spec.Taints {
		if taint.Effect != corev1.TaintEffectNoSchedule && taint.Effect != corev1.TaintEffectNoExecute {
			continue
		}
		tolerated := false
		for _, t := range tols {
			if tolerates(t, taint) {
				tolerated = true
				break
			}
		}
		if !tolerated {
			return false
		}
	}
	return true
}

// OwnedBy: is the pod an own pod of the ExtendedDaemonSet ns/name (namespace AND name label)?
func OwnedBy(p *corev1.Pod, ns, name string) bool {
	return p.Namespace == ns && p.Labels[v1.ExtendedDaemonSetNameLabelKey] == name
}

// Role of a replica set as the ExtendedDaemonSet status (as read) defines it.
func Role(eds *v1.ExtendedDaemonSet, rsName string) string {
	switch {
	case eds.Status.ActiveReplicaSet == "":
		return "unknown"
	case eds.Status.ActiveReplicaSet == rsName:
		return "active"
	case eds.Status.Canary != nil && eds.Status.Canary.ReplicaSet == rsName:
		return "canary"
	}
	return "unknown"
}

func PodHash(p *corev1.Pod) string { return p.Annotations[v1.MD5ExtendedDaemonSetAnnotationKey] }

func ERSCond(r *v1.ExtendedDaemonSetReplicaSet, t v1.ExtendedDaemonSetReplicaSetConditionType) *v1.ExtendedDaemonSetReplicaSetCondition {
	for i := range r.Status.Conditions {
		if r.Status.Conditions[i].Type == t {
			return &r.Status.Conditions[i]
		}
	}
	return nil
}

func ERSCondTrue(r *v1.ExtendedDaemonSetReplicaSet, t v1.ExtendedDaemonSetReplicaSetConditionType) bool {
	c := ERSCond(r, t)
	return c != nil && c.Status == corev1.ConditionTrue
}

func EDSCond(e *v1.ExtendedDaemonSet, t v1.ExtendedDaemonSetConditionType) *v1.ExtendedDaemonSetCondition {
	for i := range e.Status.Conditions {
		if e.Status.Conditions[i].Type == t {
			return &e.Status.Conditions[i]
		}
	}
	return nil
}

// Annot returns the value of a controller annotation (key without the domain prefix).
func Annot(e *v1.ExtendedDaemonSet, key string) (string, bool) {
	v, ok := e.Annotations["extendeddaemonset.datadoghq.com/"+key]
	return v, ok
}

func AnnotTrue(e *v1.ExtendedDaemonSet, key string) bool {
	v, _ := Annot(e, key)
	return v == "true"
}
