package world

// mon.go — transition monitors. A monitor looks only at API objects and API calls.

import (
	"fmt"
	"sort"
	"strings"

	corev1 "k8s.io/api/core/v1"

	v1 "github.com/DataDog/extendeddaemonset/api/v1alpha1"
)

// SyncView is what the reference derives from the state a replica-set sync read.
type SyncView struct {
	RS       *v1.ExtendedDaemonSetReplicaSet
	EDS      *v1.ExtendedDaemonSet
	Role     string // active canary unknown
	FullSync bool   // the sync got past its gates and listed pods
	Faulty   bool   // a fault was injected in this transition
	Canary   map[string]bool
	Ignored  map[string]bool // nodes hidden from this sync (canary nodes for the active role, existing non-canary nodes for the canary role)
	Nodes    map[string]*corev1.Node
	Eligible map[string]bool          // by the syncing replica set's template
	Own      map[string][]*corev1.Pod // own pods of the EDS by target node (phase Unknown excluded)
	Keeper   map[string]*corev1.Pod   // the pod the reference keeps per node
	PodByKey map[string]*corev1.Pod   // every pod of the pre-state by ns/name
	Creates  []*Call
	Deletes  []*Call
	Patches  []*Call
}

func hasFault(log []*Call) bool {
	for _, c := range log {
		if c.Fault != "" {
			return true
		}
	}
	return false
}

func ownedByKind(p *corev1.Pod, kind, name string) bool {
	for _, r := range p.OwnerReferences {
		if r.Kind == kind && r.Name == name {
			return true
		}
	}
	return false
}

// lessKeep: scheduled first, then older creationTimestamp (ties: either).
func lessKeep(a, b *corev1.Pod) bool {
	as, bs := a.Spec.NodeName != "", b.Spec.NodeName != ""
	if as != bs {
		return as
	}
	return a.CreationTimestamp.Time.Before(b.CreationTimestamp.Time)
}

// BuildSyncView computes the view for R_ers(ns/name) from the pre-state and the call log.
func BuildSyncView(pre *State, log []*Call, ns, name string) *SyncView {
	rs := pre.ERS(ns, name)
	if rs == nil {
		return nil
	}
	owner := controllerOf(rs, "ExtendedDaemonSet")
	if owner == "" {
		for _, r := range rs.OwnerReferences {
			if r.Kind == "ExtendedDaemonSet" {
				owner = r.Name
			}
		}
	}
	eds := pre.EDS(ns, owner)
	if eds == nil {
		return nil
	}
	v := &SyncView{RS: rs, EDS: eds, Role: Role(eds, rs.Name), Canary: map[string]bool{}, Ignored: map[string]bool{}, Nodes: map[string]*corev1.Node{},
		Eligible: map[string]bool{}, Own: map[string][]*corev1.Pod{}, Keeper: map[string]*corev1.Pod{}, PodByKey: map[string]*corev1.Pod{}}
	v.Faulty = hasFault(log)
	for _, c := range log {
		if c.Verb == "list" && c.Kind == "Pod" && c.Err == nil {
			v.FullSync = true
		}
		if c.Kind != "Pod" {
			continue
		}
		switch c.Verb {
		case "create":
			v.Creates = append(v.Creates, c)
		case "delete":
			v.Deletes = append(v.Deletes, c)
		case "patch", "update":
			v.Patches = append(v.Patches, c)
		}
	}
	if eds.Status.Canary != nil {
		for _, n := range eds.Status.Canary.Nodes {
			v.Canary[n] = true
			if v.Role == "active" {
				v.Ignored[n] = true
			}
		}
	}
	for _, n := range pre.Nodes() {
		v.Nodes[n.Name] = n
		v.Eligible[n.Name] = Eligible(n, &rs.Spec.Template)
		if v.Role == "canary" && !v.Canary[n.Name] {
			// the canary replica set manages the canary nodes only; the existing nodes outside the list are the active
			// replica set's business (a node that no longer exists is anybody's to clean up)
			v.Ignored[n.Name] = true
		}
	}
	// during a declared migration the pods controlled by the named old DaemonSet (which must exist) stand for the
	// previous version on their nodes
	oldDS := ""
	if d, ok := eds.Annotations[v1.ExtendedDaemonSetOldDaemonsetAnnotationKey]; ok && pre.Has("DaemonSet", ns, d) {
		oldDS = d
	}
	for _, p := range pre.Pods() {
		v.PodByKey[nn(p)] = p
		migrated := oldDS != "" && p.Namespace == ns && ownedByKind(p, "DaemonSet", oldDS)
		if !(OwnedBy(p, ns, eds.Name) || migrated) || p.Status.Phase == corev1.PodUnknown {
			continue
		}
		n := TargetNode(p)
		v.Own[n] = append(v.Own[n], p)
	}
	for n, pods := range v.Own {
		var live []*corev1.Pod
		for _, p := range pods {
			if p.Status.Phase != corev1.PodFailed {
				live = append(live, p)
			}
		}
		sort.SliceStable(live, func(i, j int) bool { return lessKeep(live[i], live[j]) })
		if len(live) > 0 {
			v.Keeper[n] = live[0]
		}
	}
	return v
}

// IsUpdateDeletion: was pod p deleted "in order to update it" (as opposed to clean-up of duplicates,
// of pods on ineligible / vanished nodes, of Failed pods)?
func (v *SyncView) IsUpdateDeletion(p *corev1.Pod) bool {
	n := TargetNode(p)
	if v.Nodes[n] == nil || !v.Eligible[n] || p.Status.Phase == corev1.PodFailed || p.Status.Phase == corev1.PodUnknown {
		return false
	}
	k := v.Keeper[n]
	if k == nil {
		return false
	}
	if k.Name == p.Name {
		return true
	}
	// ties in the keeper order: a pod that is not strictly worse than the keeper may be "the kept one"
	return !lessKeep(k, p)
}

func failBackoffHeld(pre *State, rs *v1.ExtendedDaemonSetReplicaSet, node string) bool {
	_, ok := pre.Backoff[fmt.Sprintf("%s/%s/%s", rs.UID, rs.Name, node)]
	return ok
}

// MonC01 — at most one daemon pod per node, only on eligible nodes.
func MonC01(c *MonCtx) {
	if c.Out.Ev.K != "R_ers" {
		// (d) applies to every controller transition
		if c.Out.Ev.K == "R_eds" {
			monUnknownUntouched(c, nil)
		}
		return
	}
	ns, name := split(c.Out.Ev.A)
	v := BuildSyncView(c.Pre, c.Out.Log, ns, name)
	if v == nil {
		return
	}
	monUnknownUntouched(c, v)
	// (a) creations
	perNode := map[string]int{}
	for _, cr := range v.Creates {
		p := cr.Obj.(*corev1.Pod)
		n := TargetNode(p)
		perNode[n]++
		c.Antecedent("C01a/create")
		switch {
		case n == "":
			c.Violate("C01a", "C01a/create: pod created without a target node", cr.Key())
		case v.Nodes[n] == nil:
			c.Violate("C01a", "C01a/create: pod created for a node that does not exist in the state read", fmt.Sprintf("node %s", n))
		case !v.Eligible[n]:
			c.Violate("C01a", "C01a/create: pod created for a node that is not eligible (selector / affinity / taints)", fmt.Sprintf("node %s role %s", n, v.Role))
		}
		for _, q := range v.Own[n] {
			if q.Status.Phase != corev1.PodFailed {
				term := "live"
				if q.DeletionTimestamp != nil {
					term = "terminating"
				}
				c.Violate("C01a", "C01a/create: pod created for a node that already carries a "+term+" daemon pod of this ExtendedDaemonSet",
					fmt.Sprintf("node %s has %s (role %s)", n, q.Name, v.Role))
				break
			}
		}
		if perNode[n] > 1 {
			c.Violate("C01a", "C01a/create: two pods created for one node in the same sync", fmt.Sprintf("node %s", n))
		}
	}
	if !v.FullSync || v.Faulty || v.Role == "unknown" {
		return
	}
	deleted := map[string]bool{}
	for _, d := range v.Deletes {
		if d.Err == nil {
			deleted[d.NS+"/"+d.Name] = true
		}
	}
	// (b) duplicates
	for n, pods := range v.Own {
		if v.Nodes[n] == nil || !v.Eligible[n] || v.Ignored[n] {
			continue
		}
		var live []*corev1.Pod
		for _, p := range pods {
			if p.Status.Phase != corev1.PodFailed {
				live = append(live, p)
			}
		}
		if len(live) < 2 {
			continue
		}
		c.Antecedent("C01b/duplicates")
		sort.SliceStable(live, func(i, j int) bool { return lessKeep(live[i], live[j]) })
		best := live[0]
		kept := 0
		for _, p := range live {
			if deleted[nn(p)] || p.DeletionTimestamp != nil {
				continue
			}
			kept++
			if lessKeep(best, p) {
				c.Violate("C01b", "C01b/duplicates: the kept pod is not a scheduled-first / oldest one", fmt.Sprintf("node %s kept %s although %s is better", n, p.Name, best.Name))
			}
		}
		if kept > 1 {
			c.Violate("C01b", "C01b/duplicates: more than one non-terminating daemon pod left on a node after a full sync", fmt.Sprintf("node %s role %s kept %d", n, v.Role, kept))
		}
		if kept == 0 && best.DeletionTimestamp == nil && PodHash(best) == v.RS.Spec.TemplateGeneration {
			// (an outdated keeper may legitimately be deleted in the same sync in order to update it)
			c.Violate("C01b", "C01b/duplicates: every duplicate deleted, none kept", fmt.Sprintf("node %s role %s", n, v.Role))
		}
	}
	// (c) pods on nodes that are not eligible / do not exist
	for n, pods := range v.Own {
		if (v.Nodes[n] != nil && v.Eligible[n]) || v.Ignored[n] {
			continue
		}
		for _, p := range pods {
			if p.DeletionTimestamp != nil {
				continue
			}
			c.Antecedent("C01c/ineligible")
			if !deleted[nn(p)] {
				c.Violate("C01c", "C01c/ineligible: daemon pod on a node that is not eligible or no longer exists was not deleted by a full sync", fmt.Sprintf("pod %s node %s role %s", p.Name, n, v.Role))
			}
		}
	}
}

// (d) pods in Unknown phase are never touched
func monUnknownUntouched(c *MonCtx, v *SyncView) {
	for _, call := range c.Out.Log {
		if call.Kind != "Pod" || !call.IsWrite() || call.Verb == "create" {
			continue
		}
		if p := c.Pre.Pod(call.NS, call.Name); p != nil && p.Status.Phase == corev1.PodUnknown {
			c.Violate("C01d", "C01d/unknown: a pod in Unknown phase was "+call.Verb+"d", p.Name)
		}
	}
}

// MonC04 — canary blast radius.
func MonC04(c *MonCtx) {
	ns, name := split(c.Out.Ev.A)
	switch c.Out.Ev.K {
	case "R_ers":
		v := BuildSyncView(c.Pre, c.Out.Log, ns, name)
		if v == nil {
			return
		}
		inProgress := v.EDS.Status.Canary != nil
		var activeHash string
		if a := c.Pre.ERS(ns, v.EDS.Status.ActiveReplicaSet); a != nil {
			activeHash = a.Spec.TemplateGeneration
		}
		if inProgress {
			// (a) new-template pods only on canary nodes
			for _, cr := range v.Creates {
				p := cr.Obj.(*corev1.Pod)
				if PodHash(p) != activeHash {
					c.Antecedent("C04a/new-template-create")
					if !v.Canary[TargetNode(p)] {
						c.Violate("C04a", "C04a/confine: pod of a non-active template created outside status.canary.nodes while a canary is in progress",
							fmt.Sprintf("node %s role %s canary=%v", TargetNode(p), v.Role, v.EDS.Status.Canary.Nodes))
					}
				}
			}
			// (c') "every other eligible node keeps being served with the active template": the canary replica set's sync does
			// not take away the only daemon pod of a node outside status.canary.nodes that exists and is eligible for the
			// template of the replica set that pod belongs to (a canary template may well be narrower than the active one)
			if v.Role == "canary" {
				for _, d := range v.Deletes {
					p := v.PodByKey[d.NS+"/"+d.Name]
					if p == nil || p.DeletionTimestamp != nil || p.Status.Phase == corev1.PodFailed {
						continue
					}
					n := TargetNode(p)
					node := v.Nodes[n]
					prs := c.Pre.ERS(ns, p.Labels[v1.ExtendedDaemonSetReplicaSetNameLabelKey])
					if n == "" || v.Canary[n] || node == nil || prs == nil || prs.Name != v.EDS.Status.ActiveReplicaSet || !Eligible(node, &prs.Spec.Template) {
						continue
					}
					others := 0
					for _, q := range v.Own[n] {
						if q.Name != p.Name && q.DeletionTimestamp == nil && q.Status.Phase != corev1.PodFailed {
							others++
						}
					}
					c.Antecedent("C04c/canary-deletes-elsewhere")
					if others == 0 {
						c.Violate("C04c", "C04c/others: the canary replica set's sync deleted the active replica set's only pod on a node outside status.canary.nodes that is eligible for the active template", fmt.Sprintf("node %s pod %s", n, p.Name))
					}
				}
			}
			// (c) the active replica set leaves canary nodes alone
			if v.Role == "active" {
				for _, w := range append(append([]*Call{}, v.Creates...), v.Deletes...) { // (the statement speaks of creating and deleting)
					var n string
					if w.Verb == "create" {
						n = TargetNode(w.Obj.(*corev1.Pod))
					} else if p := v.PodByKey[w.NS+"/"+w.Name]; p != nil {
						n = TargetNode(p)
					}
					if n != "" && v.Canary[n] {
						c.Violate("C04c", "C04c/active-touches-canary-node: the active replica set "+w.Verb+"d a pod on a canary node", fmt.Sprintf("node %s pod %s", n, w.Name))
					}
				}
				if len(v.Canary) > 0 {
					c.Antecedent("C04c/active-sync-during-canary")
				}
				// (d) during the canary nobody but the canary's own end strips the canary label from the running canary's pods
				for _, w := range v.Patches {
					p := v.PodByKey[w.NS+"/"+w.Name]
					q := c.Out.Next.Pod(w.NS, w.Name)
					if p == nil || q == nil || p.Labels[v1.ExtendedDaemonSetReplicaSetNameLabelKey] != v.EDS.Status.Canary.ReplicaSet {
						continue
					}
					_, had := p.Labels[v1.ExtendedDaemonSetReplicaSetCanaryLabelKey]
					_, has := q.Labels[v1.ExtendedDaemonSetReplicaSetCanaryLabelKey]
					if had && !has {
						c.Violate("C04d", "C04d/label: the canary label was removed from a pod of the running canary replica set by another replica set's sync", w.Name)
					}
				}
			}
		}
		if !v.FullSync || v.Faulty {
			return
		}
		post := c.Out.Next
		// (d) canary label
		if v.Role == "canary" {
			for n := range v.Canary {
				for _, p := range v.Own[n] {
					if p.Labels[v1.ExtendedDaemonSetReplicaSetNameLabelKey] != v.RS.Name || p.DeletionTimestamp != nil || v.Keeper[n] == nil || v.Keeper[n].Name != p.Name {
						continue
					}
					c.Antecedent("C04d/label-expected")
					if q := post.Pod(p.Namespace, p.Name); q != nil && q.DeletionTimestamp == nil && q.Labels[v1.ExtendedDaemonSetReplicaSetCanaryLabelKey] != v1.ExtendedDaemonSetReplicaSetCanaryLabelValue {
						c.Violate("C04d", "C04d/label: canary pod on a canary node does not carry the canary label after a full canary sync", p.Name)
					}
				}
			}
		}
		if v.Role == "active" {
			// "lose it once the replica set has become active": the moment it became active is taken from this history (the
			// ExtendedDaemonSet reconcile that switched status.activeReplicaSet to it, remembered in the monitor memory), not
			// from the Active condition the controller stores for itself; without such a memory the stored condition is used.
			// The controller retries the removal for 5 minutes, so nothing is demanded later than that.
			ac := ERSCond(v.RS, v1.ConditionTypeActive)
			now := Epoch.Add(c.Pre.Now)
			within := ac != nil && ac.Status == corev1.ConditionTrue && now.Sub(ac.LastTransitionTime.Time) < 5*60*1e9
			if at, ok := c.Pre.Mem["activated:"+ns+"/"+v.RS.Name]; ok {
				var sec int64
				fmt.Sscanf(at, "%d", &sec)
				within = int64(c.Pre.Now/1e9)-sec < 5*60
			}
			if within {
				for _, p := range post.Pods() {
					if p.Namespace == ns && p.Labels[v1.ExtendedDaemonSetReplicaSetNameLabelKey] == v.RS.Name {
						// (the canary label is the key with the value "true": a template may carry the key with another value of its own)
						if p.Labels[v1.ExtendedDaemonSetReplicaSetCanaryLabelKey] == v1.ExtendedDaemonSetReplicaSetCanaryLabelValue {
							if pp := c.Pre.Pod(p.Namespace, p.Name); pp != nil {
								c.Violate("C04d", "C04d/label: pod of the active replica set still carries the canary label after a full active sync", p.Name)
							}
						}
					}
				}
			}
		}
	case "R_eds":
		e0, e1 := c.Pre.EDS(ns, name), c.Out.Next.EDS(ns, name)
		if e0 != nil && e1 != nil && e1.Status.ActiveReplicaSet != "" && e0.Status.ActiveReplicaSet != e1.Status.ActiveReplicaSet {
			if c.Out.Next.Mem == nil {
				c.Out.Next.Mem = map[string]string{}
			}
			c.Out.Next.Mem["activated:"+ns+"/"+e1.Status.ActiveReplicaSet] = fmt.Sprint(int64(c.Pre.Now / 1e9))
		}
		if e0 == nil || e1 == nil || e1.Status.Canary == nil || e1.Spec.Strategy.Canary == nil {
			return
		}
		// (b) never more nodes than the resolved replicas
		up := UpToDateRS(c.Pre, e0)
		elig := 0
		if up != nil {
			for _, n := range c.Pre.Nodes() {
				if Eligible(n, &up.Spec.Template) {
					elig++
				}
			}
		}
		base := max(int(e0.Status.Desired), elig)
		want, ok := Resolve(e1.Spec.Strategy.Canary.Replicas, base)
		if !ok {
			return
		}
		c.Antecedent("C04b/selection")
		var before []string
		if e0.Status.Canary != nil {
			before = e0.Status.Canary.Nodes
		}
		if len(e1.Status.Canary.Nodes) > want && len(e1.Status.Canary.Nodes) > len(before) {
			c.Violate("C04b", "C04b/count: the controller added canary nodes beyond the resolved spec.strategy.canary.replicas",
				fmt.Sprintf("nodes %v want <= %d (base %d)", e1.Status.Canary.Nodes, want, base))
		}
	}
}

// ownsObject: may a reconcile on behalf of ExtendedDaemonSet e (ns/name) write this object?
func ownsObject(pre *State, e *v1.ExtendedDaemonSet, call *Call) (bool, string) {
	ns, name := e.Namespace, e.Name
	switch call.Kind {
	case "ExtendedDaemonSet":
		return call.NS == ns && call.Name == name, "another ExtendedDaemonSet"
	case "PodTemplate":
		return call.NS == ns && call.Name == name, "a PodTemplate of another name/namespace"
	case "ExtendedDaemonSetReplicaSet":
		if call.NS != ns {
			return false, "a replica set in another namespace"
		}
		if call.Verb == "create" {
			r := call.Obj.(*v1.ExtendedDaemonSetReplicaSet)
			return controllerOf(r, "ExtendedDaemonSet") == name, "a replica set created for another owner"
		}
		if r := pre.ERS(call.NS, call.Name); r != nil {
			return ownerName(r) == name, "a replica set of another ExtendedDaemonSet"
		}
		return true, ""
	case "Pod":
		if call.NS != ns {
			return false, "a pod in another namespace"
		}
		var p *corev1.Pod
		if call.Verb == "create" {
			p = call.Obj.(*corev1.Pod)
		} else {
			p = pre.Pod(call.NS, call.Name)
		}
		if p == nil {
			return true, ""
		}
		if p.Labels[v1.ExtendedDaemonSetNameLabelKey] == name {
			return true, ""
		}
		if old, ok := e.Annotations[v1.ExtendedDaemonSetOldDaemonsetAnnotationKey]; ok {
			for _, r := range p.OwnerReferences {
				if r.Kind == "DaemonSet" && r.Name == old {
					return true, ""
				}
			}
		}
		return false, "an unrelated pod"
	}
	return false, "an object of kind " + call.Kind
}

func ownerName(r *v1.ExtendedDaemonSetReplicaSet) string {
	for _, o := range r.OwnerReferences {
		if o.Kind == "ExtendedDaemonSet" {
			return o.Name
		}
	}
	return ""
}

// MonC12 — an ExtendedDaemonSet only touches its own objects.
func MonC12(c *MonCtx) {
	ns, name := split(c.Out.Ev.A)
	var e *v1.ExtendedDaemonSet
	switch c.Out.Ev.K {
	case "R_eds", "R_pt":
		e = c.Pre.EDS(ns, name)
	case "R_ers":
		if r := c.Pre.ERS(ns, name); r != nil {
			e = c.Pre.EDS(ns, ownerName(r))
		}
	default:
		return
	}
	if e == nil {
		return
	}
	for _, call := range c.Out.Log {
		if !call.IsWrite() {
			continue
		}
		c.Antecedent("C12/write")
		if ok, what := ownsObject(c.Pre, e, call); !ok {
			c.Violate("C12", fmt.Sprintf("C12/foreign-write: %s wrote %s (%s %s)", c.Out.Ev.K, what, call.Verb, call.Kind),
				fmt.Sprintf("%s by %s for %s/%s", call.Key(), c.Out.Ev, e.Namespace, e.Name))
		}
	}
	if c.Out.Ev.K == "R_eds" && !hasFault(c.Out.Log) {
		// status counters are sums over its own replica sets; active/canary replica sets are its own
		e1 := c.Out.Next.EDS(ns, name)
		if e1 == nil {
			return
		}
		wrote := false
		for _, call := range c.Out.Log {
			if call.Kind == "ExtendedDaemonSet" && call.Sub == "status" && call.Err == nil {
				wrote = true
			}
		}
		var cur, rdy, av int32
		for _, r := range c.Pre.ERSs() {
			if r.Namespace == ns && ownerName(r) == name {
				cur += r.Status.Current
				rdy += r.Status.Ready
				av += r.Status.Available
			}
		}
		if wrote && (e1.Status.Current != cur || e1.Status.Ready != rdy || e1.Status.Available != av) {
			c.Violate("C12", "C12/foreign-count: status counters are not the sums over the ExtendedDaemonSet's own replica sets",
				fmt.Sprintf("%s/%s got c/r/a=%d/%d/%d own sums %d/%d/%d", ns, name, e1.Status.Current, e1.Status.Ready, e1.Status.Available, cur, rdy, av))
		}
		for _, rn := range []string{e1.Status.ActiveReplicaSet, canaryRS(e1)} {
			if rn == "" {
				continue
			}
			if r := c.Pre.ERS(ns, rn); r == nil {
				// not in its namespace: is it someone else's?
				for _, o := range c.Pre.ERSs() {
					if o.Name == rn && o.Namespace != ns && wrote && e1.Status.ActiveReplicaSet != c.Pre.EDS(ns, name).Status.ActiveReplicaSet {
						c.Violate("C12", "C12/foreign-adopt: a replica set of another namespace was selected as active/canary", rn)
					}
				}
			} else if ownerName(r) != name {
				c.Violate("C12", "C12/foreign-adopt: a replica set owned by another ExtendedDaemonSet was selected as active/canary", rn)
			}
		}
	}
}

func canaryRS(e *v1.ExtendedDaemonSet) string {
	if e.Status.Canary == nil {
		return ""
	}
	return e.Status.Canary.ReplicaSet
}

// MonC13 — one replica set per template, faithful, never collected while in use.
func MonC13(c *MonCtx) {
	ns, name := split(c.Out.Ev.A)
	post := c.Out.Next
	switch c.Out.Ev.K {
	case "R_eds":
		e := c.Pre.EDS(ns, name)
		if e == nil {
			return
		}
		for _, call := range c.Out.Log {
			if call.Kind != "ExtendedDaemonSetReplicaSet" {
				continue
			}
			switch call.Verb {
			case "create":
				c.Antecedent("C13/create")
				r := call.Obj.(*v1.ExtendedDaemonSetReplicaSet)
				want := TemplateHash(&e.Spec.Template)
				for _, o := range c.Pre.ERSs() {
					if o.Namespace == ns && ownerName(o) == name && o.Annotations[v1.MD5ExtendedDaemonSetAnnotationKey] == want {
						c.Violate("C13", "C13/duplicate: a second replica set created for a template that already has one", o.Name)
					}
				}
				if TemplateHash(&r.Spec.Template) != want || r.Annotations[v1.MD5ExtendedDaemonSetAnnotationKey] != want || r.Spec.TemplateGeneration != want {
					c.Violate("C13", "C13/faithful: created replica set's template / recorded hash differ from spec.template", r.GenerateName)
				}
			case "delete":
				c.Antecedent("C13/delete")
				x := c.Pre.ERS(call.NS, call.Name)
				if x == nil {
					continue
				}
				up := UpToDateRS(c.Pre, e)
				if up != nil && up.Name == x.Name {
					c.Violate("C13", "C13/collect: the replica set matching spec.template was deleted", x.Name)
				}
				e1 := post.EDS(ns, name)
				if e1 != nil && e1.Status.ActiveReplicaSet == x.Name && !hasFault(c.Out.Log) && c.Out.RR.Err == nil {
					// (with a fault the status write that switches away may not have happened: the reference judges below)
					c.Violate("C13", "C13/collect: the active replica set was deleted", x.Name)
				}
				if e.Status.ActiveReplicaSet == x.Name {
					// legitimate only if the same reconcile switches away from it (reference: promotion allowed or adoption)
					if up == nil || !Promotion(e, up, Epoch.Add(c.Pre.Now)).Allowed() {
						c.Violate("C13", "C13/collect: the recorded active replica set was deleted although it stays current", x.Name)
					}
				}
				if x.Status.Desired+x.Status.Current+x.Status.Ready+x.Status.Available != 0 {
					c.Violate("C13", "C13/collect: a replica set that still reports pods was deleted", fmt.Sprintf("%s d/c/r/a=%d/%d/%d/%d", x.Name, x.Status.Desired, x.Status.Current, x.Status.Ready, x.Status.Available))
				}
			}
		}
	case "R_pt":
		if hasFault(c.Out.Log) {
			return
		}
		e := c.Pre.EDS(ns, name)
		if e == nil {
			return
		}
		c.Antecedent("C13/podtemplate")
		var pt *corev1.PodTemplate
		for _, o := range post.Objs {
			if p, ok := o.O.(*corev1.PodTemplate); ok && p.Namespace == ns && p.Name == name {
				pt = p
			}
		}
		if pt == nil {
			c.Violate("C13", "C13/podtemplate: no PodTemplate object after its reconcile", name)
			return
		}
		if TemplateHash(&pt.Template) != TemplateHash(&e.Spec.Template) || pt.Annotations[v1.MD5ExtendedDaemonSetAnnotationKey] != TemplateHash(&e.Spec.Template) {
			c.Violate("C13", "C13/podtemplate: PodTemplate differs from spec.template or its hash after its reconcile", name)
		}
	}
	// state invariants
	seen := map[string]string{}
	for _, r := range post.ERSs() {
		if r.DeletionTimestamp != nil {
			continue
		}
		k := r.Namespace + "/" + ownerName(r) + "/" + r.Annotations[v1.MD5ExtendedDaemonSetAnnotationKey]
		if o, ok := seen[k]; ok {
			c.Violate("C13", "C13/duplicate: two replica sets of one ExtendedDaemonSet share a template hash", o+" and "+r.Name)
		}
		seen[k] = r.Name
		if TemplateHash(&r.Spec.Template) != r.Annotations[v1.MD5ExtendedDaemonSetAnnotationKey] || r.Spec.TemplateGeneration != r.Annotations[v1.MD5ExtendedDaemonSetAnnotationKey] {
			c.Violate("C13", "C13/faithful: a replica set's template no longer matches its recorded hash", r.Name)
		}
	}
	for _, p := range post.Pods() {
		rn := p.Labels[v1.ExtendedDaemonSetReplicaSetNameLabelKey]
		if rn == "" {
			continue
		}
		if r := post.ERS(p.Namespace, rn); r != nil && PodHash(p) != r.Spec.TemplateGeneration {
			c.Violate("C13", "C13/faithful: a pod's template hash differs from its replica set's", p.Name)
		}
	}
}

// MonC08 — pause / freeze / canary pause withhold exactly what they promise.
func MonC08(c *MonCtx) {
	// the user's last word on the canary: an accepted "canary pause" that no later command or hand edit of the two
	// annotations revoked leaves the canary paused whatever an earlier unpause had recorded
	setMem := func(v string) {
		if c.Out.Next.Mem == nil {
			c.Out.Next.Mem = map[string]string{}
		}
		if v == "" {
			delete(c.Out.Next.Mem, "c08:user-paused")
		} else {
			c.Out.Next.Mem["c08:user-paused"] = v
		}
	}
	switch {
	case c.Out.Ev.K == "kubectl" && c.Out.CmdErr == nil && c.Out.Ev.B == "canary-pause":
		if e := c.Pre.EDS(split(c.Out.Ev.A)); e != nil && e.Status.Canary != nil {
			setMem(e.Status.Canary.ReplicaSet)
		}
	case c.Out.Ev.K == "kubectl" && strings.HasPrefix(c.Out.Ev.B, "canary-"):
		setMem("")
	case c.Out.Ev.K == "annotate" && strings.HasPrefix(c.Out.Ev.B, "canary-"):
		setMem("")
	}
	if c.Out.Ev.K != "R_ers" {
		return
	}
	ns, name := split(c.Out.Ev.A)
	v := BuildSyncView(c.Pre, c.Out.Log, ns, name)
	if v == nil {
		return
	}
	paused, frozen := AnnotTrue(v.EDS, "rolling-update-paused"), AnnotTrue(v.EDS, "rollout-frozen")
	if v.Role == "active" && (paused || frozen) {
		c.Antecedent("C08/paused-or-frozen-active-sync")
		for _, d := range v.Deletes {
			if p := v.PodByKey[d.NS+"/"+d.Name]; p != nil && v.IsUpdateDeletion(p) && PodHash(p) != v.RS.Spec.TemplateGeneration {
				which := "rolling-update-paused"
				if frozen {
					which = "rollout-frozen"
				}
				c.Violate("C08", "C08/withhold: a pod was deleted for updating while "+which+" is true", p.Name)
			}
		}
		if frozen && len(v.Creates) > 0 {
			c.Violate("C08", "C08/withhold: a pod was created while rollout-frozen is true", v.Creates[0].Key())
		}
	}
	if v.Role == "canary" {
		cp := AnnotTrue(v.EDS, "canary-paused") || ERSCondTrue(v.RS, v1.ConditionTypeCanaryPaused)
		unp := AnnotTrue(v.EDS, "canary-unpaused")
		if cp && unp && c.Pre.Mem["c08:user-paused"] == v.RS.Name {
			c.Antecedent("C08/canary-paused-after-unpause-sync")
			unp = false
		}
		if cp && !unp {
			c.Antecedent("C08/canary-paused-sync")
			if len(v.Creates) > 0 {
				c.Violate("C08", "C08/withhold: a canary pod was created while the canary is paused", v.Creates[0].Key())
			}
		}
	}
}

// MonC19Effects — the documented effect of an accepted pause-rolling-update / freeze-rollout command holds on every later
// sync of the active replica set for as long as the annotation the command wrote says true, whatever else was commanded.
func MonC19Effects(c *MonCtx) {
	if c.Out.Ev.K != "R_ers" {
		return
	}
	ns, name := split(c.Out.Ev.A)
	v := BuildSyncView(c.Pre, c.Out.Log, ns, name)
	if v == nil || v.Role != "active" {
		return
	}
	paused, frozen := AnnotTrue(v.EDS, "rolling-update-paused"), AnnotTrue(v.EDS, "rollout-frozen")
	if frozen {
		c.Antecedent("C19/frozen-sync")
		if len(v.Creates) > 0 {
			c.Violate("C19", "C19/effect: freeze-rollout blocks the creation of pods, yet a pod was created while rollout-frozen is true", v.Creates[0].Key())
		}
	}
	if paused || frozen {
		c.Antecedent("C19/paused-sync")
		for _, d := range v.Deletes {
			if p := v.PodByKey[d.NS+"/"+d.Name]; p != nil && v.IsUpdateDeletion(p) && PodHash(p) != v.RS.Spec.TemplateGeneration {
				c.Violate("C19", "C19/effect: a pod was deleted for updating after pause-rolling-update / freeze-rollout was accepted and not undone", p.Name)
			}
		}
	}
}

// MonC14 — replica-set counters are ordered after a full sync.
func MonC14(c *MonCtx) {
	if c.Out.Ev.K != "R_ers" {
		return
	}
	ns, name := split(c.Out.Ev.A)
	v := BuildSyncView(c.Pre, c.Out.Log, ns, name)
	if v == nil || !v.FullSync || v.Faulty || v.Role == "unknown" {
		return
	}
	r := c.Out.Next.ERS(ns, name)
	if r == nil {
		return
	}
	c.Antecedent("C14/ers-counters")
	s := r.Status
	if !(0 <= s.Available && s.Available <= s.Ready && s.Ready <= s.Current && s.Current <= s.Desired) {
		c.Violate("C14", "C14/order: replica-set status violates 0 <= available <= ready <= current <= desired",
			fmt.Sprintf("%s role %s d/c/r/a=%d/%d/%d/%d", name, v.Role, s.Desired, s.Current, s.Ready, s.Available))
	}
}

// StripNames removes concrete object names from a signature (kept for stable signatures across scenarios).
func StripNames(s string) string { return strings.TrimSpace(s) }
