package world

// mon_canarynodes.go — C15: status.canary.nodes valid, distinct, stable and as many as requested.

import (
	"errors"
	"fmt"
	apierrors "k8s.io/apimachinery/pkg/api/errors"
	"sort"
	"strings"

	corev1 "k8s.io/api/core/v1"
	metav1 "k8s.io/apimachinery/pkg/apis/meta/v1"

	v1 "github.com/DataDog/extendeddaemonset/api/v1alpha1"
)

// selectorMatches: independent evaluation of a metav1.LabelSelector (usable=false when it cannot be evaluated).
func selectorMatches(sel *metav1.LabelSelector, lbl map[string]string) (bool, bool) {
	if sel == nil {
		return true, true
	}
	for k, v := range sel.MatchLabels {
		if lbl[k] != v {
			return false, true
		}
	}
	for _, r := range sel.MatchExpressions {
		val, has := lbl[r.Key]
		in := false
		for _, x := range r.Values {
			if x == val {
				in = true
			}
		}
		if (r.Operator == metav1.LabelSelectorOpIn || r.Operator == metav1.LabelSelectorOpNotIn) && len(r.Values) == 0 {
			return false, false // not a valid requirement: the selector cannot be evaluated
		}
		switch r.Operator {
		case metav1.LabelSelectorOpIn:
			if !has || !in {
				return false, true
			}
		case metav1.LabelSelectorOpNotIn:
			if has && in {
				return false, true
			}
		case metav1.LabelSelectorOpExists:
			if !has {
				return false, true
			}
		case metav1.LabelSelectorOpDoesNotExist:
			if has {
				return false, true
			}
		default:
			return false, false
		}
	}
	return true, true
}

// CanaryNodesIssue is one disagreement with C15.
type CanaryNodesIssue struct{ Sig, Msg string }

// CheckCanaryNodes judges status.canary.nodes after an R_eds (pre = state read, post = state after).
func CheckCanaryNodes(pre, post *State, reconcileErr error, ns, name string) (issues []CanaryNodesIssue, active bool) {
	e0, e1 := pre.EDS(ns, name), post.EDS(ns, name)
	if e0 == nil || e1 == nil || e1.Spec.Strategy.Canary == nil || e0.Spec.Strategy.Canary == nil {
		return nil, false
	}
	up := UpToDateRS(pre, e0)
	if up == nil {
		return nil, false
	}
	add := func(sig, msg string) { issues = append(issues, CanaryNodesIssue{sig, msg}) }
	cs := e0.Spec.Strategy.Canary
	var apiErr *apierrors.StatusError
	if reconcileErr != nil && !errors.Is(reconcileErr, ErrInjected) && !errors.As(reconcileErr, &apiErr) {
		// "if fewer valid nodes exist the reconcile reports an error": a shortage must not be reported when enough valid
		// nodes exist (spreading over the anti-affinity values is a preference, the count is the requirement)
		nValid, nTargeted := 0, 0
		usable := true
		for _, n := range pre.Nodes() {
			el := Eligible(n, &up.Spec.Template)
			if el {
				nTargeted++
			}
			m, u := selectorMatches(cs.NodeSelector, n.Labels)
			if !u {
				usable = false
			}
			if el && m {
				nValid++
			}
		}
		want, ok := Resolve(cs.Replicas, nTargeted)
		wantAlt, _ := Resolve(cs.Replicas, int(e0.Status.Desired))
		if usable && ok && nValid >= want && nValid >= wantAlt {
			if strings.Contains(reconcileErr.Error(), "enough") {
				add("C15/shortage: a shortage of canary nodes is reported although enough valid nodes exist", fmt.Sprintf("%d valid nodes, %d requested (anti-affinity keys %v): %v", nValid, want, cs.NodeAntiAffinityKeys, reconcileErr))
			} else if e0.Status.Canary == nil || len(e0.Status.Canary.Nodes) != want {
				// any other error of its own making (not an API failure) while a selection was due: the selector can be
				// evaluated and enough valid nodes exist, so there is nothing to report
				add("C15/refused: the reconcile reports an error instead of selecting canary nodes although the nodeSelector can be evaluated and enough valid nodes exist", fmt.Sprintf("%d valid nodes, %d requested: %v", nValid, want, reconcileErr))
			}
		}
	}
	if e1.Status.Canary == nil {
		return issues, false
	}
	valid := map[string]bool{}
	restarts := map[string]int{}
	targeted := 0
	usableSel := true
	for _, n := range pre.Nodes() {
		el := Eligible(n, &up.Spec.Template)
		if el {
			targeted++
		}
		m, usable := selectorMatches(cs.NodeSelector, n.Labels)
		if !usable {
			usableSel = false
		}
		valid[n.Name] = el && m
	}
	if !usableSel {
		// a selector that cannot be evaluated (unknown operator, In / NotIn without values) matches no node: every name
		// the controller adds in this step is a node that does not match spec.strategy.canary.nodeSelector
		was := map[string]bool{}
		if e0.Status.Canary != nil {
			for _, n := range e0.Status.Canary.Nodes {
				was[n] = true
			}
		}
		for _, n := range e1.Status.Canary.Nodes {
			if !was[n] {
				add("C15/unusable-selector: canary nodes were picked although spec.strategy.canary.nodeSelector cannot be evaluated (it matches no node) and the reconcile reported no error", n)
				break
			}
		}
		return issues, true
	}
	for _, p := range pre.Pods() {
		if OwnedBy(p, ns, name) {
			for _, c := range p.Status.ContainerStatuses {
				restarts[p.Spec.NodeName] += int(c.RestartCount)
			}
		}
	}
	L := e1.Status.Canary.Nodes
	var prev []string
	if e0.Status.Canary != nil {
		prev = e0.Status.Canary.Nodes
	}
	inPrev := map[string]bool{}
	for _, n := range prev {
		inPrev[n] = true
	}
	inL := map[string]bool{}
	for _, n := range L {
		if inL[n] {
			add("C15/distinct: a node is listed twice in status.canary.nodes", n)
		}
		inL[n] = true
	}
	if reconcileErr != nil {
		return issues, true // the reconcile reported trouble: nothing further is promised for this step
	}
	hasInvalid := false
	for _, n := range L {
		if pre.Node(n) != nil && valid[n] {
			continue
		}
		hasInvalid = true
		what := "does not match the canary selector or is not eligible"
		if pre.Node(n) == nil {
			what = "does not exist"
		}
		if inPrev[n] {
			// the node was selected earlier and the list was not refreshed
			add("C15/valid-stale: a previously selected canary node that "+what+" (any more) is still listed", n)
		} else {
			add("C15/valid-pick: the controller selected a canary node that "+what, n)
		}
	}
	for _, n := range prev {
		if valid[n] && !inL[n] {
			add("C15/stable: a previously selected node that is still valid was dropped", n)
		}
	}
	base := targeted
	want, ok := Resolve(cs.Replicas, base)
	wantAlt, _ := Resolve(cs.Replicas, int(e0.Status.Desired))
	if !ok {
		return issues, true
	}
	isPercent := cs.Replicas.Type == 1
	if len(L) > want {
		// safety clause, strict: "never exceeds it through the controller's own choice" - the percentage is resolved against
		// the nodes the ExtendedDaemonSet targets, not against a status counter that may double-count during a canary
		newPicks := 0
		for _, n := range L {
			if !inPrev[n] {
				newPicks++
			}
		}
		if newPicks > 0 && len(prev) >= want {
			if isPercent && len(L) <= wantAlt && int(e0.Status.Desired) > base {
				// the controller followed its own resolution against status.desired, which at that moment counted the canary
				// nodes twice (canary replica set synced, active one not yet): a call site of its own, kept apart from any
				// other way of over-selecting
				add("C15/count-base: a percentage of canary replicas was resolved against a status.desired that counts the canary nodes twice, and the list grew beyond the percentage of the targeted nodes",
					fmt.Sprintf("nodes=%v (previous %v) want %d of %d targeted; status.desired read: %d", L, prev, want, base, e0.Status.Desired))
			} else {
				add("C15/count: the controller selected more canary nodes than requested", fmt.Sprintf("nodes=%v (previous %v) want %d of %d targeted (status.desired read: %d)", L, prev, want, base, e0.Status.Desired))
			}
		}
	} else if len(L) != want && len(L) != wantAlt {
		kind := "number"
		if isPercent {
			kind = "percentage"
		}
		if len(L) < want {
			add("C15/count: fewer canary nodes than requested and no error reported (replicas given as "+kind+")", fmt.Sprintf("nodes=%v want %d of %d targeted", L, want, base))
		} else {
			newPicks := 0
			for _, n := range L {
				if !inPrev[n] {
					newPicks++
				}
			}
			if newPicks > 0 { // the list is longer than requested AND the controller itself added to it
				add("C15/count: the controller selected more canary nodes than requested", fmt.Sprintf("nodes=%v (previous %v) want %d", L, prev, want))
			}
		}
	}
	// preference: least restarts (no anti-affinity keys); spread (with keys)
	if len(cs.NodeAntiAffinityKeys) == 0 {
		for _, p := range L {
			if inPrev[p] || !valid[p] {
				continue
			}
			for c, ok := range valid {
				if ok && !inL[c] && restarts[c] < restarts[p] {
					add("C15/prefer: a node whose daemon pods restarted more was picked over one that restarted less", fmt.Sprintf("picked %s (%d) over %s (%d)", p, restarts[p], c, restarts[c]))
				}
			}
		}
	} else if !hasInvalid {
		val := func(n *corev1.Node) string {
			var vs []string
			for _, k := range cs.NodeAntiAffinityKeys {
				vs = append(vs, n.Labels[k])
			}
			return strings.Join(vs, "$")
		}
		valuesAll, valuesValid := map[string]bool{}, map[string]bool{}
		for _, n := range pre.Nodes() {
			if m, _ := selectorMatches(cs.NodeSelector, n.Labels); m {
				valuesAll[val(n)] = true
				if valid[n.Name] {
					valuesValid[val(n)] = true
				}
			}
		}
		nv := min(len(valuesAll), max(len(valuesValid), 1))
		if nv == 0 {
			nv = 1
		}
		limit := (want + nv - 1) / nv
		cnt := map[string]int{}
		newPick := map[string]bool{}
		for _, n := range L {
			if node := pre.Node(n); node != nil {
				cnt[val(node)]++
				if !inPrev[n] {
					newPick[val(node)] = true
				}
			}
		}
		vals := make([]string, 0, len(cnt))
		for v := range cnt {
			vals = append(vals, v)
		}
		sort.Strings(vals)
		// spreading is a preference: a value may exceed its share only when no better balanced choice existed, i.e. no
		// valid node that was left out belongs to a value that is still below its share
		better := ""
		for _, n := range pre.Nodes() {
			if valid[n.Name] && !inL[n.Name] && cnt[val(n)] < limit {
				better = n.Name
			}
		}
		for _, v := range vals {
			if cnt[v] > limit && newPick[v] && better != "" {
				add("C15/spread: more canary nodes share one value of nodeAntiAffinityKeys than ceil(replicas/#values)", fmt.Sprintf("value %q: %d > %d although %s (another value, below its share) was available", v, cnt[v], limit, better))
			}
		}
	}
	return issues, true
}

// MonC15 is the transition monitor.
func MonC15(c *MonCtx) {
	if c.Out.Ev.K != "R_eds" || hasFault(c.Out.Log) {
		return
	}
	ns, name := split(c.Out.Ev.A)
	issues, active := CheckCanaryNodes(c.Pre, c.Out.Next, c.Out.RR.Err, ns, name)
	if active {
		c.Antecedent("C15/canary-active")
	}
	for _, is := range issues {
		c.Violate("C15", is.Sig, is.Msg)
	}
}

var _ = v1.ConditionTypeCanary
