package world

// explore.go — explicit-state breadth-first search over the real transition function.

import (
	"fmt"
	"os"
	"runtime"
	"sort"
	"sync"
	"sync/atomic"
	"testing"

	"verif/mc/h"
)

// Scenario closes the system: initial states, alphabet, monitors.
type Scenario struct {
	Name    string
	Cfg     Config
	Tpls    Templates
	Init    []*State
	Enabled func(s *State) []Event
	// Monitors run on every transition.
	Monitors []func(c *MonCtx)
	// Prune: successors for which it returns true are checked by the monitors but not expanded further.
	Prune func(s *State) bool
}

// MonCtx is handed to monitors for one transition.
type MonCtx struct {
	Sc   *Scenario
	Pre  *State
	Out  *StepOut
	Run  *h.Run
	ex   *Explorer
	rank int64
	// Init index and path of the pre-state (lazily computed)
	pathFn func() (int, []Event)
	// Extra is merged into the replay record of violations.
	Extra map[string]interface{}
}

// NewMonCtx builds a monitor context outside the explorer (replays, fault runs).
func NewMonCtx(sc *Scenario, pre *State, out *StepOut, run *h.Run, path func() (int, []Event)) *MonCtx {
	return &MonCtx{Sc: sc, Pre: pre, Out: out, Run: run, pathFn: path}
}

// Violate records a violation of the running property with a replayable trace.
func (c *MonCtx) Violate(monitor, sig, msg string) {
	initIdx, path := c.pathFn()
	evs := append(append([]Event{}, path...), c.Out.Ev)
	rep := map[string]interface{}{"scenario": c.Sc.Name, "init": initIdx, "events": evs, "trace": traceStrings(evs),
		"pre_state": c.Pre.Describe(), "post_state": c.Out.Next.Describe(), "calls": CallStrings(c.Out.Log)}
	for k, v := range c.Extra {
		rep[k] = v
	}
	c.Run.Violate(h.Violation{Signature: sig, Monitor: monitor, Message: msg, Rank: c.rank, Replay: rep})
	if c.ex != nil && !c.Run.IsKnown(sig) {
		atomic.StoreInt32(&c.ex.stop, 1)
	}
}

// Antecedent counts that a monitor's antecedent was true (vacuity guard).
func (c *MonCtx) Antecedent(name string) { c.Run.Count("antecedent:"+name, 1) }

func traceStrings(evs []Event) []string {
	out := make([]string, len(evs))
	for i, e := range evs {
		out[i] = e.String()
	}
	return out
}

func CallStrings(log []*Call) []string {
	var out []string
	for _, c := range log {
		s := c.Key()
		if c.Fault != "" {
			s += " FAULT=" + c.Fault
		}
		if c.Err != nil {
			s += " err"
		}
		out = append(out, s)
	}
	return out
}

type parentInfo struct {
	parent string
	ev     Event
	init   int
	depth  int
}

type cand struct {
	st   *State
	pidx int
	eidx int
	ev   Event
}

// Explorer runs the BFS.
type Explorer struct {
	T       *testing.T
	Run     *h.Run
	Sc      *Scenario
	Workers int
	// SelfCheckEvery: every n-th new state is re-derived a second time from its parent and the keys must agree.
	SelfCheckEvery int
	MaxStates      int
	MaxDepth       int

	States      int
	Transitions int64
	Depth       int
	SelfChecks  int64
	Capped      bool
	perEvent    sync.Map
	seen        map[string]parentInfo
	stop        int32
	// Visit is called once for every distinct state (after its level completes), sequentially.
	Visit func(s *State, depth int)
	// Quiescent counts states in which no controller event changes anything (filled when CountQuiescent).
}

func (e *Explorer) pathTo(key string) (int, []Event) {
	var rev []Event
	for {
		pi, ok := e.seen[key]
		if !ok {
			panic("pathTo: unknown key")
		}
		if pi.parent == "" {
			for i, j := 0, len(rev)-1; i < j; i, j = i+1, j-1 {
				rev[i], rev[j] = rev[j], rev[i]
			}
			return pi.init, rev
		}
		rev = append(rev, pi.ev)
		key = pi.parent
	}
}

// Step executes one event on a state in a fresh bubble.
func Step(t *testing.T, sc *Scenario, s *State, ev Event) *StepOut {
	var out *StepOut
	InBubble(t, s.Now, func() {
		l := NewLive(s, sc.Cfg)
		out = Apply(l, s, ev, sc.Tpls)
	})
	return out
}

// StepWithFault executes one event with a fault decided per API call; a "stop" fault also models the process
// restart that follows (fresh controller instance: empty in-memory back-off).
func StepWithFault(t *testing.T, sc *Scenario, s *State, ev Event, fn func(idx int, c *Call) string) *StepOut {
	var out *StepOut
	InBubble(t, s.Now, func() {
		l := NewLive(s, sc.Cfg)
		l.API.FaultFn = fn
		l.API.NoStickyStop = true
		out = Apply(l, s, ev, sc.Tpls)
	})
	for _, c := range out.Log {
		if c.Fault == FaultStop {
			out.Next.Backoff = nil
			break
		}
	}
	return out
}

// Explore runs the search to completion (or to the caps / deadline) and fills the counters.
func (e *Explorer) Explore() {
	if e.Workers == 0 {
		e.Workers = runtime.NumCPU()
	}
	if e.SelfCheckEvery == 0 {
		e.SelfCheckEvery = 1
		if h.Thorough() {
			e.SelfCheckEvery = 50
		}
	}
	e.seen = map[string]parentInfo{}
	var frontier []*State
	for i, s := range e.Sc.Init {
		k := s.Key()
		if _, ok := e.seen[k]; ok {
			continue
		}
		e.seen[k] = parentInfo{init: i}
		frontier = append(frontier, s)
		if e.Visit != nil {
			e.Visit(s, 0)
		}
	}
	depth := 0
	for len(frontier) > 0 {
		if e.MaxDepth > 0 && depth >= e.MaxDepth {
			e.Capped = true
			e.Run.NotExhaustive(fmt.Sprintf("%s: depth cap %d reached with %d frontier states", e.Sc.Name, e.MaxDepth, len(frontier)))
			break
		}
		if e.Run.Expired() {
			e.Capped = true
			e.Run.NotExhaustive(fmt.Sprintf("%s: deadline reached; BFS levels 0..%d fully explored, %d frontier states pending", e.Sc.Name, depth-1, len(frontier)))
			break
		}
		var next sync.Map // key -> *cand (minimum (pidx,eidx) wins)
		var nextMu [64]sync.Mutex
		var idx int64 = -1
		var wg sync.WaitGroup
		for w := 0; w < e.Workers; w++ {
			wg.Add(1)
			go func() {
				defer wg.Done()
				classes := map[string]struct{}{}
				defer func() {
					for c := range classes {
						e.Run.Nontrivial(c)
					}
				}()
				for {
					i := int(atomic.AddInt64(&idx, 1))
					if i >= len(frontier) {
						return
					}
					pre := frontier[i]
					evs := e.Sc.Enabled(pre)
					for j, ev := range evs {
						if ev.Dev && pre.Budget <= 0 {
							continue
						}
						out := Step(e.T, e.Sc, pre, ev)
						atomic.AddInt64(&e.Transitions, 1)
						{ // distinct non-trivial transition classes: (scenario, event kind, pod creates, pod deletes, other writes, error)
							cr, de, wr := 0, 0, 0
							for _, c := range out.Log {
								switch {
								case c.Kind == "Pod" && c.Verb == "create":
									cr++
								case c.Kind == "Pod" && c.Verb == "delete":
									de++
								case c.IsWrite():
									wr++
								}
							}
							if cr+de+wr > 0 || ev.Dev {
								classes[fmt.Sprintf("%s|%s|c%d d%d w%d err=%v", e.Sc.Name, ev.K, cr, de, wr, out.RR.Err != nil || out.CmdErr != nil)] = struct{}{}
							}
						}
						cnt, _ := e.perEvent.LoadOrStore(ev.K, new(int64))
						atomic.AddInt64(cnt.(*int64), 1)
						mc := &MonCtx{Sc: e.Sc, Pre: pre, Out: out, Run: e.Run, ex: e, rank: int64(depth)<<40 | int64(i)<<8 | int64(j)}
						preKey := pre.Key()
						mc.pathFn = func() (int, []Event) { return e.pathTo(preKey) }
						for _, m := range e.Sc.Monitors {
							m(mc)
						}
						k := out.Next.Key()
						if _, ok := e.seen[k]; ok {
							continue
						}
						if e.Sc.Prune != nil && e.Sc.Prune(out.Next) {
							continue
						}
						sh := &nextMu[int(k[0])%64]
						sh.Lock()
						if old, ok := next.Load(k); ok {
							o := old.(*cand)
							if o.pidx < i || (o.pidx == i && o.eidx <= j) {
								sh.Unlock()
								continue
							}
						}
						next.Store(k, &cand{st: out.Next, pidx: i, eidx: j, ev: ev})
						sh.Unlock()
					}
				}
			}()
		}
		wg.Wait()
		// merge deterministically
		var cands []*cand
		next.Range(func(_, v interface{}) bool { cands = append(cands, v.(*cand)); return true })
		sort.Slice(cands, func(a, b int) bool {
			if cands[a].pidx != cands[b].pidx {
				return cands[a].pidx < cands[b].pidx
			}
			return cands[a].eidx < cands[b].eidx
		})
		// determinism self-check: re-derive from the parent, keys must agree
		var scIdx int64 = -1
		var bad atomic.Value
		var wg2 sync.WaitGroup
		for w := 0; w < e.Workers; w++ {
			wg2.Add(1)
			go func() {
				defer wg2.Done()
				for {
					i := int(atomic.AddInt64(&scIdx, 1))
					if i >= len(cands) {
						return
					}
					if i%e.SelfCheckEvery != 0 {
						continue
					}
					c := cands[i]
					again := Step(e.T, e.Sc, frontier[c.pidx], c.ev)
					atomic.AddInt64(&e.SelfChecks, 1)
					again.Next.Mem = c.st.Mem // monitor memory is written by the monitors, which do not run here
					if again.Next.Key() != c.st.Key() {
						bad.Store(fmt.Sprintf("nondeterministic transition %s from state %v\n  first outcome:  %v\n  second outcome: %v", c.ev, frontier[c.pidx].Describe(), c.st.Describe(), again.Next.Describe()))
					}
				}
			}()
		}
		wg2.Wait()
		if b := bad.Load(); b != nil {
			fmt.Println("HARNESS ERROR:", b)
			os.Exit(2)
		}
		depth++
		newFrontier := make([]*State, 0, len(cands))
		for _, c := range cands {
			k := c.st.Key()
			e.seen[k] = parentInfo{parent: frontier[c.pidx].Key(), ev: c.ev, depth: depth}
			newFrontier = append(newFrontier, c.st)
			if e.Visit != nil {
				e.Visit(c.st, depth)
			}
		}
		frontier = newFrontier
		e.Depth = depth
		if atomic.LoadInt32(&e.stop) != 0 {
			e.Capped = true
			e.Run.NotExhaustive(e.Sc.Name + ": stopped after the BFS level in which a violation was found")
			break
		}
		if e.MaxStates > 0 && len(e.seen) >= e.MaxStates {
			e.Capped = true
			e.Run.NotExhaustive(fmt.Sprintf("%s: state cap %d reached at depth %d", e.Sc.Name, e.MaxStates, depth))
			break
		}
	}
	e.States = len(e.seen)
	e.Run.Count("states", int64(e.States))
	e.Run.Count("transitions", e.Transitions)
	e.Run.Count("traces_validated_against_impl", e.SelfChecks)
	e.perEvent.Range(func(k, v interface{}) bool {
		e.Run.Count("ev:"+k.(string), atomic.LoadInt64(v.(*int64)))
		return true
	})
}

// PathTo exposes the event path to a visited state.
func (e *Explorer) PathTo(s *State) (int, []Event) { return e.pathTo(s.Key()) }

// ReplayPath re-executes a recorded trace sequentially with the monitors (no exploration).
func ReplayPath(t *testing.T, run *h.Run, sc *Scenario, initIdx int, evs []Event) *State {
	s := sc.Init[initIdx]
	for i, ev := range evs {
		out := Step(t, sc, s, ev)
		prefix := evs[:i]
		mc := &MonCtx{Sc: sc, Pre: s, Out: out, Run: run, pathFn: func() (int, []Event) { return initIdx, prefix }}
		for _, m := range sc.Monitors {
			m(mc)
		}
		s = out.Next
	}
	return s
}
