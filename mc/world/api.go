// Package world: a simulated cluster around the real reconcilers of /repo.
//
// api.go — the API layer: a client.Client on top of controller-runtime's fake client that adds what
// a real API server does and the fake does not (canonical generateName resolution, UID,
// creationTimestamp, graceful pod deletion), records every call, and injects faults.
package world

import (
	"context"
	"crypto/md5"
	"encoding/hex"
	"errors"
	"fmt"
	"sort"
	"strings"
	"sync"
	"time"

	appsv1 "k8s.io/api/apps/v1"
	corev1 "k8s.io/api/core/v1"
	apierrors "k8s.io/apimachinery/pkg/api/errors"
	"k8s.io/apimachinery/pkg/api/meta"
	metav1 "k8s.io/apimachinery/pkg/apis/meta/v1"
	"k8s.io/apimachinery/pkg/runtime"
	"k8s.io/apimachinery/pkg/runtime/schema"
	"k8s.io/apimachinery/pkg/types"
	"sigs.k8s.io/controller-runtime/pkg/client"
	"sigs.k8s.io/controller-runtime/pkg/client/fake"

	v1 "github.com/DataDog/extendeddaemonset/api/v1alpha1"
)

// PodFinalizer keeps a deleted pod in Terminating state until the kubelet model removes it.
const PodFinalizer = "verif.kubelet/terminating"

// GracePeriod is the deletion grace period stamped on pods.
const GracePeriod = int64(30)

var Scheme = func() *runtime.Scheme {
	s := runtime.NewScheme()
	must(corev1.AddToScheme(s))
	must(appsv1.AddToScheme(s))
	must(v1.AddToScheme(s))
	return s
}()

func must(err error) {
	if err != nil {
		panic(err)
	}
}

// Call is one recorded API call.
type Call struct {
	Verb string // get list create update patch delete
	Kind string // Pod Node ExtendedDaemonSet ExtendedDaemonSetReplicaSet ExtendedDaemonsetSetting PodTemplate DaemonSet
	NS   string
	Name string
	Sub  string // "status" or ""
	// GenName: metadata.generateName of a created object whose name the server chooses
	GenName string
	// Obj: deep copy of the object as passed by the caller (writes) or as returned (get)
	Obj client.Object
	// Items: deep copies of what a list returned
	Items []client.Object
	// ListNS / ListSel: the list options
	ListNS  string
	ListSel string
	Err     error
	// Fault injected on this call ("" none)
	Fault string
}

func (c *Call) Key() string {
	name := c.Name
	if c.Verb == "create" && c.GenName != "" {
		// stable before and after the call: the generated name is not part of the key
		name = c.GenName + "*"
		if p, ok := c.Obj.(*corev1.Pod); ok {
			name += "@" + TargetNode(p)
		}
	}
	s := c.Verb + " " + c.Kind + " " + c.NS + "/" + name
	if c.Sub != "" {
		s += " /" + c.Sub
	}
	if c.Verb == "list" {
		s = "list " + c.Kind + " ns=" + c.ListNS + " sel=" + c.ListSel
	}
	return s
}

func (c *Call) IsWrite() bool {
	return c.Verb != "get" && c.Verb != "list"
}

// Fault kinds.
const (
	FaultNone   = ""
	FaultReject = "reject" // error returned, nothing applied
	FaultLost   = "lost"   // applied, error returned
	FaultStop   = "stop"   // this and every later call of the transition fail, nothing applied
)

var ErrInjected = errors.New("verif: injected API failure")

// API implements client.Client.
type API struct {
	inner client.Client
	store *Store // non-nil when inner is the in-memory store
	// RecordReads keeps deep copies of what every Get/List returned in the call log.
	RecordReads bool
	mu          sync.Mutex
	Log         []*Call
	// FaultFn decides the fault for a call (called with the call index and the call key); nil = none.
	FaultFn func(idx int, c *Call) string
	stopped bool
	// NoStickyStop: a "stop" answer of FaultFn fails only that call; FaultFn itself decides which later calls fail
	// (used to cut parallel batches by call content instead of arrival order).
	NoStickyStop bool
	// ReverseLists returns lists in reverse name order (a thorough-tier deviation).
	ReverseLists bool
	// Hook is called before every pod create/delete with the call (C17 controlled scheduler); may block.
	Hook  func(c *Call) error
	quiet bool
	// genMu makes "choose a free name + create" one step, as it is on a real server: two concurrent creates with the
	// same generateName and content both succeed, under names that do not depend on which one came first
	genMu sync.Mutex
}

// NewAPI builds the API layer over the in-memory store holding objs (shared, immutable).
func NewAPI(objs []*Obj) *API {
	st := NewStore(objs)
	st.StrictRV = true
	return &API{inner: st, store: st}
}

// NewAPIFake builds the API layer over controller-runtime's fake client (conformance tests).
func NewAPIFake(objs []*Obj) *API {
	cp := make([]client.Object, len(objs))
	for i, o := range objs {
		cp[i] = o.O.DeepCopyObject().(client.Object)
	}
	b := fake.NewClientBuilder().WithScheme(Scheme).WithObjects(cp...).
		WithStatusSubresource(&v1.ExtendedDaemonSet{}, &v1.ExtendedDaemonSetReplicaSet{}, &v1.ExtendedDaemonsetSetting{}, &corev1.Pod{})
	return &API{inner: b.Build()}
}

// Inner gives the environment (kubelet, user) direct, unrecorded access to the store.
func (a *API) Inner() client.Client { return a.inner }

func (a *API) ResetLog() {
	a.mu.Lock()
	a.Log = nil
	a.stopped = false
	a.mu.Unlock()
}

func kindOf(obj runtime.Object) string {
	switch obj.(type) {
	case *corev1.Pod, *corev1.PodList:
		return "Pod"
	case *corev1.Node, *corev1.NodeList:
		return "Node"
	case *corev1.PodTemplate, *corev1.PodTemplateList:
		return "PodTemplate"
	case *appsv1.DaemonSet, *appsv1.DaemonSetList:
		return "DaemonSet"
	case *v1.ExtendedDaemonSet, *v1.ExtendedDaemonSetList:
		return "ExtendedDaemonSet"
	case *v1.ExtendedDaemonSetReplicaSet, *v1.ExtendedDaemonSetReplicaSetList:
		return "ExtendedDaemonSetReplicaSet"
	case *v1.ExtendedDaemonsetSetting, *v1.ExtendedDaemonsetSettingList:
		return "ExtendedDaemonsetSetting"
	}
	return fmt.Sprintf("%T", obj)
}

// record appends the call and returns the fault decided for it.
func (a *API) record(c *Call) string {
	a.mu.Lock()
	defer a.mu.Unlock()
	idx := len(a.Log)
	a.Log = append(a.Log, c)
	if a.stopped {
		c.Fault = FaultStop
		return FaultStop
	}
	if a.FaultFn != nil {
		c.Fault = a.FaultFn(idx, c)
		if c.Fault == FaultStop && !a.NoStickyStop {
			a.stopped = true
		}
	}
	return c.Fault
}

func cp(o client.Object) client.Object {
	if o == nil {
		return nil
	}
	return o.DeepCopyObject().(client.Object)
}

func (a *API) Get(ctx context.Context, key client.ObjectKey, obj client.Object, opts ...client.GetOption) error {
	c := &Call{Verb: "get", Kind: kindOf(obj), NS: key.Namespace, Name: key.Name}
	switch a.record(c) {
	case FaultReject, FaultLost, FaultStop:
		c.Err = ErrInjected
		return c.Err
	}
	c.Err = a.inner.Get(ctx, key, obj, opts...)
	if c.Err == nil && a.RecordReads {
		c.Obj = cp(obj)
	}
	return c.Err
}

func (a *API) List(ctx context.Context, list client.ObjectList, opts ...client.ListOption) error {
	lo := &client.ListOptions{}
	lo.ApplyOptions(opts)
	c := &Call{Verb: "list", Kind: kindOf(list), ListNS: lo.Namespace}
	if lo.LabelSelector != nil {
		c.ListSel = lo.LabelSelector.String()
	}
	switch a.record(c) {
	case FaultReject, FaultLost, FaultStop:
		c.Err = ErrInjected
		return c.Err
	}
	c.Err = a.inner.List(ctx, list, opts...)
	if c.Err != nil {
		return c.Err
	}
	if a.ReverseLists || a.RecordReads || a.store == nil {
		items, _ := meta.ExtractList(list)
		sort.SliceStable(items, func(i, j int) bool {
			x, y := items[i].(client.Object), items[j].(client.Object)
			if x.GetNamespace() != y.GetNamespace() {
				return (x.GetNamespace() < y.GetNamespace()) != a.ReverseLists
			}
			return (x.GetName() < y.GetName()) != a.ReverseLists
		})
		_ = meta.SetList(list, items)
		if a.RecordReads {
			for _, it := range items {
				c.Items = append(c.Items, cp(it.(client.Object)))
			}
		}
	}
	return nil
}

// canonicalName resolves generateName deterministically from the object's content.
func (a *API) canonicalName(ctx context.Context, obj client.Object) string {
	base := obj.GetGenerateName()
	switch o := obj.(type) {
	case *v1.ExtendedDaemonSetReplicaSet:
		// a function of namespace and template: distinct namespaces get distinct names, like random suffixes do
		sum := md5.Sum([]byte(o.Namespace + "/" + o.Spec.TemplateGeneration))
		base += hex.EncodeToString(sum[:])[:6]
	case *corev1.Pod:
		n := o.Spec.NodeName
		if n == "" {
			n = nodeFromAffinity(o)
		}
		if n == "" {
			n = "unbound"
		}
		base += n
	default:
		base += "x"
	}
	name := base
	for k := 2; ; k++ {
		probe := obj.DeepCopyObject().(client.Object)
		err := a.inner.Get(ctx, types.NamespacedName{Namespace: obj.GetNamespace(), Name: name}, probe)
		if apierrors.IsNotFound(err) {
			return name
		}
		name = fmt.Sprintf("%s-%d", base, k)
	}
}

func nodeFromAffinity(p *corev1.Pod) string {
	if p.Spec.Affinity == nil || p.Spec.Affinity.NodeAffinity == nil || p.Spec.Affinity.NodeAffinity.RequiredDuringSchedulingIgnoredDuringExecution == nil {
		return ""
	}
	for _, t := range p.Spec.Affinity.NodeAffinity.RequiredDuringSchedulingIgnoredDuringExecution.NodeSelectorTerms {
		for _, f := range t.MatchFields {
			if f.Key == "metadata.name" && f.Operator == corev1.NodeSelectorOpIn && len(f.Values) == 1 {
				return f.Values[0]
			}
		}
	}
	return ""
}

// TargetNode is the node a pod is bound or pinned to.
func TargetNode(p *corev1.Pod) string {
	if p.Spec.NodeName != "" {
		return p.Spec.NodeName
	}
	return nodeFromAffinity(p)
}

func now() metav1.Time { return metav1.NewTime(time.Now().Truncate(time.Second)) }

func (a *API) Create(ctx context.Context, obj client.Object, opts ...client.CreateOption) error {
	c := &Call{Verb: "create", Kind: kindOf(obj), NS: obj.GetNamespace(), Name: obj.GetName(), Obj: cp(obj)}
	if obj.GetName() == "" {
		c.GenName = obj.GetGenerateName()
	}
	f := a.record(c)
	if a.Hook != nil && c.Kind == "Pod" && f == FaultNone {
		if err := a.Hook(c); err != nil {
			c.Err = err
			return err
		}
	}
	if f == FaultReject || f == FaultStop {
		c.Err = ErrInjected
		return c.Err
	}
	stored := cp(obj)
	if stored.GetName() == "" && stored.GetGenerateName() != "" {
		a.genMu.Lock()
		defer a.genMu.Unlock()
		stored.SetName(a.canonicalName(ctx, stored))
	}
	stored.SetUID(types.UID("uid-" + strings.ToLower(c.Kind) + "-" + stored.GetNamespace() + "-" + stored.GetName()))
	stored.SetCreationTimestamp(now())
	if _, ok := stored.(*corev1.Pod); ok {
		stored.SetFinalizers(append(stored.GetFinalizers(), PodFinalizer))
	}
	c.Err = a.inner.Create(ctx, stored, opts...)
	if c.Err != nil {
		return c.Err
	}
	c.Name = stored.GetName()
	if f == FaultLost {
		c.Err = ErrInjected
		return c.Err
	}
	// give the caller what the server would return (name, uid, resourceVersion, creationTimestamp)
	obj.SetName(stored.GetName())
	obj.SetUID(stored.GetUID())
	obj.SetCreationTimestamp(stored.GetCreationTimestamp())
	obj.SetResourceVersion(stored.GetResourceVersion())
	return nil
}

// DeletePodGracefully marks a pod Terminating (idempotent) — what an API server does on DELETE of a pod.
func DeletePodGracefully(ctx context.Context, c client.Client, ns, name string) error {
	p := &corev1.Pod{}
	if err := c.Get(ctx, types.NamespacedName{Namespace: ns, Name: name}, p); err != nil {
		return err
	}
	if p.DeletionTimestamp != nil {
		return nil // already terminating: DELETE is a no-op
	}
	hasFin := false
	for _, f := range p.Finalizers {
		if f == PodFinalizer {
			hasFin = true
		}
	}
	if !hasFin {
		return c.Delete(ctx, p)
	}
	g := GracePeriod
	p.DeletionGracePeriodSeconds = &g
	if err := c.Update(ctx, p); err != nil {
		return err
	}
	return c.Delete(ctx, p)
}

func (a *API) Delete(ctx context.Context, obj client.Object, opts ...client.DeleteOption) error {
	c := &Call{Verb: "delete", Kind: kindOf(obj), NS: obj.GetNamespace(), Name: obj.GetName(), Obj: cp(obj)}
	f := a.record(c)
	if a.Hook != nil && c.Kind == "Pod" && f == FaultNone {
		if err := a.Hook(c); err != nil {
			c.Err = err
			return err
		}
	}
	if f == FaultReject || f == FaultStop {
		c.Err = ErrInjected
		return c.Err
	}
	if c.Kind == "Pod" {
		// read-modify-write of one object: serialised like on a real server, so that two concurrent deletions of one pod
		// have one outcome (both succeed; the second finds the pod terminating)
		a.genMu.Lock()
		c.Err = DeletePodGracefully(ctx, a.inner, obj.GetNamespace(), obj.GetName())
		a.genMu.Unlock()
	} else {
		c.Err = a.inner.Delete(ctx, obj, opts...)
	}
	if c.Err == nil && f == FaultLost {
		c.Err = ErrInjected
	}
	return c.Err
}

func (a *API) Update(ctx context.Context, obj client.Object, opts ...client.UpdateOption) error {
	c := &Call{Verb: "update", Kind: kindOf(obj), NS: obj.GetNamespace(), Name: obj.GetName(), Obj: cp(obj)}
	f := a.record(c)
	if f == FaultReject || f == FaultStop {
		c.Err = ErrInjected
		return c.Err
	}
	if f == FaultLost {
		c.Err = a.inner.Update(ctx, cp(obj), opts...)
		if c.Err == nil {
			c.Err = ErrInjected
		}
		return c.Err
	}
	c.Err = a.inner.Update(ctx, obj, opts...)
	return c.Err
}

func (a *API) Patch(ctx context.Context, obj client.Object, patch client.Patch, opts ...client.PatchOption) error {
	c := &Call{Verb: "patch", Kind: kindOf(obj), NS: obj.GetNamespace(), Name: obj.GetName(), Obj: cp(obj)}
	f := a.record(c)
	if f == FaultReject || f == FaultStop {
		c.Err = ErrInjected
		return c.Err
	}
	if f == FaultLost {
		c.Err = a.inner.Patch(ctx, cp(obj), patch, opts...)
		if c.Err == nil {
			c.Err = ErrInjected
		}
		return c.Err
	}
	c.Err = a.inner.Patch(ctx, obj, patch, opts...)
	return c.Err
}

func (a *API) DeleteAllOf(ctx context.Context, obj client.Object, opts ...client.DeleteAllOfOption) error {
	return errors.New("verif: DeleteAllOf is not used by the code under test")
}

type statusWriter struct{ a *API }

func (a *API) Status() client.SubResourceWriter { return &statusWriter{a} }

func (a *API) SubResource(sub string) client.SubResourceClient {
	panic("verif: SubResource client is not used by the code under test")
}

func (s *statusWriter) Create(ctx context.Context, obj client.Object, sub client.Object, opts ...client.SubResourceCreateOption) error {
	return errors.New("verif: status create unused")
}

func (s *statusWriter) Update(ctx context.Context, obj client.Object, opts ...client.SubResourceUpdateOption) error {
	a := s.a
	c := &Call{Verb: "update", Sub: "status", Kind: kindOf(obj), NS: obj.GetNamespace(), Name: obj.GetName(), Obj: cp(obj)}
	f := a.record(c)
	if f == FaultReject || f == FaultStop {
		c.Err = ErrInjected
		return c.Err
	}
	if f == FaultLost {
		c.Err = a.inner.Status().Update(ctx, cp(obj), opts...)
		if c.Err == nil {
			c.Err = ErrInjected
		}
		return c.Err
	}
	c.Err = a.inner.Status().Update(ctx, obj, opts...)
	return c.Err
}

func (s *statusWriter) Patch(ctx context.Context, obj client.Object, patch client.Patch, opts ...client.SubResourcePatchOption) error {
	a := s.a
	c := &Call{Verb: "patch", Sub: "status", Kind: kindOf(obj), NS: obj.GetNamespace(), Name: obj.GetName(), Obj: cp(obj)}
	f := a.record(c)
	if f != FaultNone {
		c.Err = ErrInjected
		return c.Err
	}
	c.Err = a.inner.Status().Patch(ctx, obj, patch, opts...)
	return c.Err
}

func (a *API) Scheme() *runtime.Scheme     { return Scheme }
func (a *API) RESTMapper() meta.RESTMapper { return a.inner.RESTMapper() }
func (a *API) GroupVersionKindFor(obj runtime.Object) (schema.GroupVersionKind, error) {
	return a.inner.GroupVersionKindFor(obj)
}
func (a *API) IsObjectNamespaced(obj runtime.Object) (bool, error) {
	return a.inner.IsObjectNamespaced(obj)
}

// Snapshot returns every object in the store, sorted by kind/namespace/name (shared, immutable).
func (a *API) Snapshot() []*Obj {
	if a.store != nil {
		return a.store.Snapshot()
	}
	ctx := context.Background()
	var out []*Obj
	lists := []client.ObjectList{&corev1.NodeList{}, &corev1.PodList{}, &corev1.PodTemplateList{}, &appsv1.DaemonSetList{},
		&v1.ExtendedDaemonSetList{}, &v1.ExtendedDaemonSetReplicaSetList{}, &v1.ExtendedDaemonsetSettingList{}}
	for _, l := range lists {
		must(a.inner.List(ctx, l))
		items, _ := meta.ExtractList(l)
		for _, it := range items {
			o := it.(client.Object)
			o.GetObjectKind().SetGroupVersionKind(schema.GroupVersionKind{})
			out = append(out, Wrap(o))
		}
	}
	SortWrapped(out)
	return out
}

func SortObjs(out []client.Object) {
	sort.SliceStable(out, func(i, j int) bool {
		ki, kj := kindOf(out[i]), kindOf(out[j])
		if ki != kj {
			return ki < kj
		}
		if out[i].GetNamespace() != out[j].GetNamespace() {
			return out[i].GetNamespace() < out[j].GetNamespace()
		}
		return out[i].GetName() < out[j].GetName()
	})
}

// KindOf exported for monitors.
func KindOf(o runtime.Object) string { return kindOf(o) }
