package world

// events.go — the event alphabet: controller steps (real code), kubelet/scheduler/GC model,
// user actions (incl. the real kubectl-eds command bodies), node churn, clock ticks.

import (
	"bytes"
	"context"
	"fmt"
	"k8s.io/apimachinery/pkg/util/intstr"
	"strings"
	"time"

	corev1 "k8s.io/api/core/v1"
	apierrors "k8s.io/apimachinery/pkg/api/errors"
	metav1 "k8s.io/apimachinery/pkg/apis/meta/v1"
	"k8s.io/apimachinery/pkg/types"
	"sigs.k8s.io/controller-runtime/pkg/client"

	v1 "github.com/DataDog/extendeddaemonset/api/v1alpha1"
	plugcanary "github.com/DataDog/extendeddaemonset/pkg/plugin/canary"
	plugfreeze "github.com/DataDog/extendeddaemonset/pkg/plugin/freeze"
	plugpause "github.com/DataDog/extendeddaemonset/pkg/plugin/pause"
)

// Event is one atomic transition of the world.
type Event struct {
	K   string `json:"k"`
	A   string `json:"a,omitempty"` // ns/name or node name
	B   string `json:"b,omitempty"`
	N   int    `json:"n,omitempty"`
	Dev bool   `json:"dev,omitempty"` // costs one unit of the deviation budget
}

func (e Event) String() string {
	s := e.K
	if e.A != "" {
		s += "(" + e.A
		if e.B != "" {
			s += "," + e.B
		}
		if e.N != 0 {
			s += fmt.Sprintf(",%d", e.N)
		}
		s += ")"
	} else if e.N != 0 {
		s += fmt.Sprintf("(%d)", e.N)
	}
	return s
}

func split(a string) (string, string) {
	i := strings.IndexByte(a, '/')
	if i < 0 {
		return "", a
	}
	return a[:i], a[i+1:]
}

func nn(o client.Object) string { return o.GetNamespace() + "/" + o.GetName() }

// StepOut is what one transition produced.
type StepOut struct {
	Ev     Event
	Log    []*Call
	RR     ReconcileResult
	CmdErr error  // kubectl-eds command error
	CmdOut string // kubectl-eds command output
	MidRan bool   // "mid:" variant: the command was executed (the reconcile made a write call)
	Next   *State
}

// Templates is the scenario's template alphabet (tag -> template); the tag is the image of container "main".
type Templates map[string]corev1.PodTemplateSpec

// RunKubectl runs the real body of one kubectl-eds command (export shims, build tag verif) with the given client.
func RunKubectl(c client.Client, ns, name, cmd string) (error, string) {
	var buf bytes.Buffer
	var err error
	switch cmd {
	case "canary-pause":
		err = plugcanary.VerifRunPause(c, ns, name, &buf)
	case "canary-unpause":
		err = plugcanary.VerifRunUnpause(c, ns, name, &buf)
	case "canary-validate":
		err = plugcanary.VerifRunValidate(c, ns, name, &buf)
	case "canary-fail":
		err = plugcanary.VerifRunFail(c, ns, name, &buf)
	case "pause-rolling-update":
		err = plugpause.VerifRun(c, ns, name, true, &buf)
	case "unpause-rolling-update":
		err = plugpause.VerifRun(c, ns, name, false, &buf)
	case "freeze-rollout":
		err = plugfreeze.VerifRun(c, ns, name, true, &buf)
	case "unfreeze-rollout":
		err = plugfreeze.VerifRun(c, ns, name, false, &buf)
	default:
		panic("unknown kubectl command " + cmd)
	}
	return err, buf.String()
}

// Apply executes ev on the live world (inside the bubble).
func Apply(l *Live, s *State, ev Event, tpls Templates) *StepOut {
	out := &StepOut{Ev: ev}
	ctx := context.Background()
	in := l.API.Inner()
	l.API.ResetLog()
	ns, name := split(ev.A)
	if strings.HasPrefix(ev.K, "R_") && strings.HasPrefix(ev.B, "fault:") {
		// a controller step with one injected fault: B = "fault:<kind>:<text>"; the first call whose text contains
		// <text> (or, for a pod creation, whose target node is <text>) gets the fault
		parts := strings.SplitN(ev.B, ":", 3)
		done := false
		l.API.NoStickyStop = true
		l.API.FaultFn = func(idx int, c *Call) string {
			if done {
				if parts[1] == FaultStop {
					return FaultStop
				}
				return ""
			}
			hit := strings.Contains(c.Key(), parts[2])
			if strings.HasSuffix(parts[2], "$") { // anchored: the whole key (tells "update X ns/n" from "update X ns/n /status")
				hit = c.Key() == strings.TrimSuffix(parts[2], "$")
			}
			if c.Kind == "Pod" && c.Verb == "create" {
				if p, ok := c.Obj.(*corev1.Pod); ok && TargetNode(p) == parts[2] {
					hit = true
				}
			}
			if hit {
				done = true
				return parts[1]
			}
			return ""
		}
	}
	if strings.HasPrefix(ev.K, "R_") && strings.HasPrefix(ev.B, "mid:") {
		// a controller step that is overtaken by a user command: B = "mid:<command>:<ns/eds>"; the real command body runs
		// (against the store, unrecorded) immediately before the first write call of the reconcile, i.e. after the
		// reconcile has read its objects. Reconciles are not atomic in a real cluster: this is the one sub-reconcile
		// interleaving the exploration offers.
		parts := strings.SplitN(ev.B, ":", 3)
		ens, ename := split(parts[2])
		done := false
		l.API.FaultFn = func(idx int, c *Call) string {
			if !done && c.IsWrite() {
				done = true
				out.CmdErr, out.CmdOut = RunKubectl(in, ens, ename, parts[1])
				out.MidRan = true
			}
			return ""
		}
	}
	switch ev.K {
	case "R_eds":
		out.RR = l.ReconcileEDS(ns, name)
	case "R_ers":
		out.RR = l.ReconcileERS(ns, name)
	case "R_set":
		out.RR = l.ReconcileSetting(ns, name)
	case "R_pt":
		out.RR = l.ReconcilePT(ns, name)
	case "restartctl":
		l.RestartControllers()
	case "tick":
		time.Sleep(time.Duration(ev.N) * time.Second)
	case "ready":
		p := getPod(in, ns, name)
		if p != nil {
			MakeReady(ctx, in, p)
		}
	case "gone":
		p := getPod(in, ns, name)
		if p != nil && p.DeletionTimestamp != nil {
			RemovePod(ctx, in, p)
		}
	case "gc":
		GC(ctx, in)
	case "unready":
		p := getPod(in, ns, name)
		if p != nil {
			setReady(p, false)
			must(in.Status().Update(ctx, p))
		}
	case "restart":
		p := getPod(in, ns, name)
		if p != nil {
			ensureContainerStatuses(p)
			ci := 0
			if ev.B != "" {
				fmt.Sscanf(ev.B, "%d", &ci)
			}
			if ci >= len(p.Status.ContainerStatuses) {
				ci = 0
			}
			cs := &p.Status.ContainerStatuses[ci]
			cs.RestartCount += int32(ev.N)
			cs.LastTerminationState = corev1.ContainerState{Terminated: &corev1.ContainerStateTerminated{ExitCode: 1, Reason: "Error", FinishedAt: now()}}
			must(in.Status().Update(ctx, p))
		}
	case "waiting":
		p := getPod(in, ns, name)
		if p != nil {
			ensureContainerStatuses(p)
			if p.Status.StartTime == nil {
				t := now()
				p.Status.StartTime = &t
			}
			p.Status.ContainerStatuses[0].Ready = false
			p.Status.ContainerStatuses[0].State = corev1.ContainerState{Waiting: &corev1.ContainerStateWaiting{Reason: ev.B}}
			setReady(p, false)
			must(in.Status().Update(ctx, p))
		}
	case "fail":
		p := getPod(in, ns, name)
		if p != nil {
			p.Status.Phase = corev1.PodFailed
			p.Status.Reason = "Evicted"
			setReady(p, false)
			must(in.Status().Update(ctx, p))
		}
	case "unknown":
		p := getPod(in, ns, name)
		if p != nil {
			p.Status.Phase = corev1.PodUnknown
			setReady(p, false)
			must(in.Status().Update(ctx, p))
		}
	case "quarantine":
		p := getPod(in, ns, name)
		if p != nil {
			delete(p.Labels, v1.ExtendedDaemonSetNameLabelKey)
			must(in.Update(ctx, p))
		}
	case "unschedulable":
		p := getPod(in, ns, name)
		if p != nil {
			setCond(p, corev1.PodScheduled, corev1.ConditionFalse, corev1.PodReasonUnschedulable)
			must(in.Status().Update(ctx, p))
		}
	case "setTemplate":
		e := &v1.ExtendedDaemonSet{}
		must(in.Get(ctx, types.NamespacedName{Namespace: ns, Name: name}, e))
		tp := tpls[ev.B]
		e.Spec.Template = *tp.DeepCopy()
		must(in.Update(ctx, e))
	case "editSpec": // B = "drop-canary" | "canary-replicas=<int-or-percent>"
		e := &v1.ExtendedDaemonSet{}
		must(in.Get(ctx, types.NamespacedName{Namespace: ns, Name: name}, e))
		switch {
		case strings.HasPrefix(ev.B, "set-label:"):
			kv := strings.SplitN(strings.TrimPrefix(ev.B, "set-label:"), "=", 2)
			if e.Labels == nil {
				e.Labels = map[string]string{}
			}
			e.Labels[kv[0]] = kv[1]
		case ev.B == "drop-canary":
			e.Spec.Strategy.Canary = nil
		case strings.HasPrefix(ev.B, "canary-replicas=") && e.Spec.Strategy.Canary != nil:
			v := intstr.Parse(strings.TrimPrefix(ev.B, "canary-replicas="))
			e.Spec.Strategy.Canary.Replicas = &v
		default:
			panic("unknown spec edit " + ev.B)
		}
		must(in.Update(ctx, e))
	case "annotate": // B = "key=value" or "key-" (remove); key without the domain prefix
		e := &v1.ExtendedDaemonSet{}
		must(in.Get(ctx, types.NamespacedName{Namespace: ns, Name: name}, e))
		if e.Annotations == nil {
			e.Annotations = map[string]string{}
		}
		if strings.HasSuffix(ev.B, "-") {
			delete(e.Annotations, "extendeddaemonset.datadoghq.com/"+strings.TrimSuffix(ev.B, "-"))
		} else {
			kv := strings.SplitN(ev.B, "=", 2)
			e.Annotations["extendeddaemonset.datadoghq.com/"+kv[0]] = kv[1]
		}
		must(in.Update(ctx, e))
	case "kubectl": // B = command; runs the REAL command body against the recording API layer
		out.CmdErr, out.CmdOut = RunKubectl(l.API, ns, name, ev.B)
	case "addNode": // A = node name, B = "k=v,k=v" labels
		n := MkNode(ev.A, parseLabels(ev.B))
		n.CreationTimestamp = now()
		must(in.Create(ctx, n))
	case "fgdelete": // kubectl delete ers --cascade=foreground: the object stays, terminating, until its dependents are gone
		rs := &v1.ExtendedDaemonSetReplicaSet{}
		must(in.Get(ctx, types.NamespacedName{Namespace: ns, Name: name}, rs))
		rs.Finalizers = append(rs.Finalizers, "foregroundDeletion")
		must(in.Update(ctx, rs))
		must(in.Delete(ctx, rs))
	case "delNode":
		n := &corev1.Node{ObjectMeta: metav1.ObjectMeta{Name: ev.A}}
		must(client.IgnoreNotFound(in.Delete(ctx, n)))
	case "taint": // B = effect
		n := &corev1.Node{}
		must(in.Get(ctx, types.NamespacedName{Name: ev.A}, n))
		if ev.B == "cordon" {
			n.Spec.Taints = append(n.Spec.Taints, corev1.Taint{Key: "node.kubernetes.io/unschedulable", Effect: corev1.TaintEffectNoSchedule})
			n.Spec.Unschedulable = true
		} else if ev.B == "notready" { // what the node lifecycle controller puts on a NotReady node: both effects
			n.Spec.Taints = append(n.Spec.Taints, corev1.Taint{Key: "node.kubernetes.io/not-ready", Effect: corev1.TaintEffectNoSchedule},
				corev1.Taint{Key: "node.kubernetes.io/not-ready", Effect: corev1.TaintEffectNoExecute})
		} else {
			n.Spec.Taints = append(n.Spec.Taints, corev1.Taint{Key: "verif/taint", Value: "x", Effect: corev1.TaintEffect(ev.B)})
		}
		must(in.Update(ctx, n))
	case "untaint":
		n := &corev1.Node{}
		must(in.Get(ctx, types.NamespacedName{Name: ev.A}, n))
		n.Spec.Taints = nil
		must(in.Update(ctx, n))
	case "relabel": // B = "k=v"
		n := &corev1.Node{}
		must(in.Get(ctx, types.NamespacedName{Name: ev.A}, n))
		n.Labels = parseLabels(ev.B)
		must(in.Update(ctx, n))
	case "nodeAnnot": // B = key=value
		n := &corev1.Node{}
		must(in.Get(ctx, types.NamespacedName{Name: ev.A}, n))
		kv := strings.SplitN(ev.B, "=", 2)
		if n.Annotations == nil {
			n.Annotations = map[string]string{}
		}
		n.Annotations[kv[0]] = kv[1]
		must(in.Update(ctx, n))
	case "delEDS":
		e := &v1.ExtendedDaemonSet{ObjectMeta: metav1.ObjectMeta{Namespace: ns, Name: name}}
		must(client.IgnoreNotFound(in.Delete(ctx, e)))
	case "nop":
	default:
		panic("unknown event " + ev.K)
	}
	out.Log = l.API.Log
	out.Next = l.Capture(s)
	if ev.Dev {
		out.Next.Budget--
	}
	return out
}

func parseLabels(s string) map[string]string {
	m := map[string]string{}
	if s == "" {
		return m
	}
	for _, kv := range strings.Split(s, ",") {
		p := strings.SplitN(kv, "=", 2)
		if len(p) == 2 {
			m[p[0]] = p[1]
		}
	}
	return m
}

func getPod(c client.Client, ns, name string) *corev1.Pod {
	p := &corev1.Pod{}
	if err := c.Get(context.Background(), types.NamespacedName{Namespace: ns, Name: name}, p); err != nil {
		if apierrors.IsNotFound(err) {
			return nil
		}
		panic(err)
	}
	return p
}

func setCond(p *corev1.Pod, t corev1.PodConditionType, st corev1.ConditionStatus, reason string) {
	for i := range p.Status.Conditions {
		if p.Status.Conditions[i].Type == t {
			if p.Status.Conditions[i].Status != st {
				p.Status.Conditions[i].LastTransitionTime = now()
			}
			p.Status.Conditions[i].Status = st
			p.Status.Conditions[i].Reason = reason
			return
		}
	}
	p.Status.Conditions = append(p.Status.Conditions, corev1.PodCondition{Type: t, Status: st, Reason: reason, LastTransitionTime: now()})
}

func setReady(p *corev1.Pod, ready bool) {
	st := corev1.ConditionFalse
	if ready {
		st = corev1.ConditionTrue
	}
	setCond(p, corev1.PodReady, st, "")
}

func ensureContainerStatuses(p *corev1.Pod) {
	if len(p.Status.ContainerStatuses) == len(p.Spec.Containers) {
		return
	}
	p.Status.ContainerStatuses = nil
	for _, c := range p.Spec.Containers {
		p.Status.ContainerStatuses = append(p.Status.ContainerStatuses, corev1.ContainerStatus{Name: c.Name, Image: c.Image})
	}
}

// MakeReady: scheduler binds the pod if needed, kubelet starts it, it becomes Running and Ready.
func MakeReady(ctx context.Context, c client.Client, p *corev1.Pod) {
	if p.Spec.NodeName == "" {
		n := nodeFromAffinity(p)
		if n == "" {
			return
		}
		p.Spec.NodeName = n
		must(c.Update(ctx, p))
	}
	p.Status.Phase = corev1.PodRunning
	if p.Status.StartTime == nil {
		t := now()
		p.Status.StartTime = &t
	}
	ensureContainerStatuses(p)
	for i := range p.Status.ContainerStatuses {
		p.Status.ContainerStatuses[i].Ready = true
		p.Status.ContainerStatuses[i].State = corev1.ContainerState{Running: &corev1.ContainerStateRunning{StartedAt: *p.Status.StartTime}}
	}
	setCond(p, corev1.PodScheduled, corev1.ConditionTrue, "")
	setReady(p, true)
	must(c.Status().Update(ctx, p))
}

// RemovePod finishes the termination of a pod.
func RemovePod(ctx context.Context, c client.Client, p *corev1.Pod) {
	var fin []string
	for _, f := range p.Finalizers {
		if f != PodFinalizer {
			fin = append(fin, f)
		}
	}
	p.Finalizers = fin
	if p.DeletionTimestamp == nil {
		must(c.Update(ctx, p))
		must(client.IgnoreNotFound(c.Delete(ctx, p)))
		return
	}
	must(client.IgnoreNotFound(c.Update(ctx, p)))
}

// GC deletes dependents whose controller owner no longer exists (cascading, like the garbage collector).
func GC(ctx context.Context, c client.Client) {
	for round := 0; round < 3; round++ {
		edss := &v1.ExtendedDaemonSetList{}
		must(c.List(ctx, edss))
		haveEDS := map[string]bool{}
		for _, e := range edss.Items {
			haveEDS[e.Namespace+"/"+e.Name] = true
		}
		erss := &v1.ExtendedDaemonSetReplicaSetList{}
		must(c.List(ctx, erss))
		haveERS := map[string]bool{}
		for i := range erss.Items {
			r := &erss.Items[i]
			if o := controllerOf(r, "ExtendedDaemonSet"); o != "" && !haveEDS[r.Namespace+"/"+o] {
				must(client.IgnoreNotFound(c.Delete(ctx, r)))
				continue
			}
			haveERS[r.Namespace+"/"+r.Name] = true
		}
		pts := &corev1.PodTemplateList{}
		must(c.List(ctx, pts))
		for i := range pts.Items {
			r := &pts.Items[i]
			if o := controllerOf(r, "ExtendedDaemonSet"); o != "" && !haveEDS[r.Namespace+"/"+o] {
				must(client.IgnoreNotFound(c.Delete(ctx, r)))
			}
		}
		pods := &corev1.PodList{}
		must(c.List(ctx, pods))
		for i := range pods.Items {
			p := &pods.Items[i]
			if o := controllerOf(p, "ExtendedDaemonSetReplicaSet"); o != "" && !haveERS[p.Namespace+"/"+o] && p.DeletionTimestamp == nil {
				must(client.IgnoreNotFound(DeletePodGracefully(ctx, c, p.Namespace, p.Name)))
			}
		}
	}
}

func controllerOf(o client.Object, kind string) string {
	for _, r := range o.GetOwnerReferences() {
		if r.Kind == kind && r.Controller != nil && *r.Controller {
			return r.Name
		}
	}
	return ""
}

// NeedsGC reports whether GC would do something.
func NeedsGC(s *State) bool {
	haveEDS := map[string]bool{}
	for _, e := range s.EDSs() {
		haveEDS[nn(e)] = true
	}
	haveERS := map[string]bool{}
	for _, r := range s.ERSs() {
		if o := controllerOf(r, "ExtendedDaemonSet"); o != "" && !haveEDS[r.Namespace+"/"+o] {
			return true
		}
		haveERS[nn(r)] = true
	}
	for _, p := range s.Pods() {
		if o := controllerOf(p, "ExtendedDaemonSetReplicaSet"); o != "" && !haveERS[p.Namespace+"/"+o] && p.DeletionTimestamp == nil {
			return true
		}
	}
	return false
}

// ---- object builders ---------------------------------------------------------------------------

func MkNode(name string, labels map[string]string, taints ...corev1.Taint) *corev1.Node {
	return &corev1.Node{ObjectMeta: metav1.ObjectMeta{Name: name, Labels: labels, CreationTimestamp: metav1.NewTime(Epoch)},
		Spec: corev1.NodeSpec{Taints: taints}}
}

// Tpl builds the template with the given tag (image of the single container "main").
func Tpl(tag string) corev1.PodTemplateSpec {
	t := corev1.PodTemplateSpec{
		ObjectMeta: metav1.ObjectMeta{Labels: map[string]string{"app": "agent"}},
		Spec:       corev1.PodSpec{Containers: []corev1.Container{{Name: "main", Image: tag}}},
	}
	// "X+label:k=v" : template X carrying an extra (possibly misleading) label
	if i := strings.Index(tag, "+label:"); i > 0 {
		kv := strings.SplitN(tag[i+len("+label:"):], "=", 2)
		t.Labels[kv[0]] = kv[1]
	}
	// "X+nodesel:k=v" : template X with spec.nodeSelector {k: v}; "+preferred": a node affinity with only a preferred term
	if i := strings.Index(tag, "+nodesel:"); i > 0 {
		rest := tag[i+len("+nodesel:"):]
		if j := strings.Index(rest, "+"); j >= 0 {
			rest = rest[:j]
		}
		kv := strings.SplitN(rest, "=", 2)
		t.Spec.NodeSelector = map[string]string{kv[0]: kv[1]}
	}
	if strings.Contains(tag, "+preferred") {
		t.Spec.Affinity = &corev1.Affinity{NodeAffinity: &corev1.NodeAffinity{PreferredDuringSchedulingIgnoredDuringExecution: []corev1.PreferredSchedulingTerm{
			{Weight: 1, Preference: corev1.NodeSelectorTerm{MatchExpressions: []corev1.NodeSelectorRequirement{{Key: "zone", Operator: corev1.NodeSelectorOpIn, Values: []string{"z1"}}}}}}}}
	}
	// "X+metans" : template X whose own metadata carries a namespace and a generateName (legal, ignored for the pods)
	if strings.Contains(tag, "+metans") {
		t.Namespace, t.GenerateName = "elsewhere", "tpl-"
	}
	// "X+tolnr" : template X that tolerates node.kubernetes.io/not-ready:NoSchedule (an agent that must be scheduled before
	// its node is Ready); the standard DaemonSet toleration for that key has the other effect
	if strings.Contains(tag, "+tolnr") {
		t.Spec.Tolerations = append(t.Spec.Tolerations, corev1.Toleration{Key: "node.kubernetes.io/not-ready", Operator: corev1.TolerationOpExists, Effect: corev1.TaintEffectNoSchedule})
	}
	// "X+toltaint" : template X that tolerates the harness taint verif/taint (whatever its effect)
	if strings.Contains(tag, "+toltaint") {
		t.Spec.Tolerations = append(t.Spec.Tolerations, corev1.Toleration{Key: "verif/taint", Operator: corev1.TolerationOpExists})
	}
	// "X+side" : template X with a second container "side"
	if strings.Contains(tag, "+side") {
		base := tag
		if i := strings.Index(tag, "+"); i > 0 {
			base = tag[:i]
		}
		t.Spec.Containers = append(t.Spec.Containers, corev1.Container{Name: "side", Image: base + "-side"})
	}
	// "X+notname:<node>" : template X whose required node affinity excludes a node by name (metadata.name NotIn)
	if i := strings.Index(tag, "+notname:"); i > 0 {
		t.Spec.Affinity = &corev1.Affinity{NodeAffinity: &corev1.NodeAffinity{RequiredDuringSchedulingIgnoredDuringExecution: &corev1.NodeSelector{
			NodeSelectorTerms: []corev1.NodeSelectorTerm{{MatchFields: []corev1.NodeSelectorRequirement{{Key: "metadata.name", Operator: corev1.NodeSelectorOpNotIn, Values: []string{tag[i+len("+notname:"):]}}}}}}}}
	}
	return t
}

func MkEDS(ns, name string, tpl corev1.PodTemplateSpec) *v1.ExtendedDaemonSet {
	return &v1.ExtendedDaemonSet{
		ObjectMeta: metav1.ObjectMeta{Namespace: ns, Name: name, CreationTimestamp: metav1.NewTime(Epoch), UID: types.UID("uid-eds-" + ns + "-" + name)},
		Spec:       v1.ExtendedDaemonSetSpec{Template: tpl},
	}
}

func IsReady(p *corev1.Pod) bool {
	for _, c := range p.Status.Conditions {
		if c.Type == corev1.PodReady {
			return c.Status == corev1.ConditionTrue
		}
	}
	return false
}
