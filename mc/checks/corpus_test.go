package checks

import (
	"time"

	corev1 "k8s.io/api/core/v1"
	"sigs.k8s.io/controller-runtime/pkg/client"

	w "verif/mc/world"
)

const edsKey = "ns/foo"

func taintedNode(name string, eff corev1.TaintEffect) client.Object {
	return w.MkNode(name, map[string]string{}, corev1.Taint{Key: "dedicated", Value: "x", Effect: eff})
}

// corpus returns the scenario options of the shared corpus by name.
func corpusS1(budget int, alpha *w.Alpha) scOpt {
	return scOpt{name: "S1-first-deployment", nodes: []string{"n1", "n2"}, extra: []client.Object{taintedNode("n3", corev1.TaintEffectNoSchedule)},
		raw: true, alpha: alpha, budget: budget}
}

func corpusS2(nodes []string, mu string, budget int, alpha *w.Alpha) scOpt {
	return scOpt{name: "S2-rolling-update-mu" + mu, nodes: nodes, eds: []w.EDSOpt{w.WithRolling(mu, "", 0, 0)},
		first: []w.Event{evb("setTemplate", edsKey, "B")}, alpha: alpha, budget: budget}
}

func corpusS3(nodes []string, replicas, mode string, budget int, alpha *w.Alpha) scOpt {
	d := 10 * time.Minute
	if mode == "manual" {
		d = 0
	}
	nr := time.Duration(0)
	return scOpt{name: "S3-canary-" + replicas + "-" + mode, nodes: nodes,
		eds:   []w.EDSOpt{w.WithCanary(replicas, d, nr, mode), w.WithAuto(true, 1, true, 2)},
		first: []w.Event{evb("setTemplate", edsKey, "B")}, alpha: alpha, budget: budget}
}
