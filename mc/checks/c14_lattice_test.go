package checks

import (
	"fmt"
	"testing"
	"time"

	corev1 "k8s.io/api/core/v1"
	metav1 "k8s.io/apimachinery/pkg/apis/meta/v1"
	"sigs.k8s.io/controller-runtime/pkg/client"

	v1 "github.com/DataDog/extendeddaemonset/api/v1alpha1"

	"verif/mc/h"
	w "verif/mc/world"
)

// ---- C14 lattice: the status function alone ------------------------------------------------------------

type c14Case struct {
	Canary     bool   `json:"canary_strategy"`
	Active     string `json:"recorded_active"` // a b empty gone
	Leftover   bool   `json:"third_replica_set"`
	CountersA  int    `json:"counters_a"`
	CountersB  int    `json:"counters_b"`
	CountersC  int    `json:"counters_c"`
	PausedCond string `json:"b_canary_paused_condition"`
	FailedCond string `json:"b_canary_failed_condition"`
	AnnPaused  string `json:"canary_paused_annotation"`
	RUPaused   bool   `json:"rolling_update_paused"`
	Frozen     bool   `json:"rollout_frozen"`
	Valid      bool   `json:"canary_valid_names_b"`
	HadCanary  bool   `json:"status_canary_present"`
	Ended      bool   `json:"duration_elapsed"`
}

var c14Tuples = [][4]int32{{0, 0, 0, 0}, {1, 1, 1, 1}, {2, 1, 1, 0}, {2, 2, 1, 1}}

func c14Build(c c14Case, now time.Time) *w.State {
	opts := []w.EDSOpt{w.WithFrequency(10 * time.Second)}
	if c.Canary {
		opts = append(opts, w.WithCanary("1", 60*time.Second, 0, "auto"))
	}
	eds := w.NewEDS("ns", "foo", "B", opts...)
	eds = v1.DefaultExtendedDaemonSet(eds, "auto")
	if eds.Spec.Strategy.Canary != nil {
		eds.Spec.Strategy.Canary.NoRestartsDuration = nil
	}
	age := 30 * time.Second
	if c.Ended {
		age = 90 * time.Second
	}
	rsA := mkERS("ns", "foo-a", "foo", w.Tpl("A"), now.Add(-time.Hour))
	rsB := mkERS("ns", "foo-b", "foo", w.Tpl("B"), now.Add(-age))
	rsC := mkERS("ns", "foo-c", "foo", w.Tpl("C"), now.Add(-2*time.Hour))
	set := func(r *v1.ExtendedDaemonSetReplicaSet, i int) {
		t := c14Tuples[i]
		r.Status.Desired, r.Status.Current, r.Status.Ready, r.Status.Available = t[0], t[1], t[2], t[3]
	}
	set(rsA, c.CountersA)
	set(rsB, c.CountersB)
	set(rsC, c.CountersC)
	cond := func(t v1.ExtendedDaemonSetReplicaSetConditionType, st string) {
		if st != "absent" {
			at := metav1.NewTime(now.Add(-20 * time.Second))
			rsB.Status.Conditions = append(rsB.Status.Conditions, v1.ExtendedDaemonSetReplicaSetCondition{Type: t, Status: corev1.ConditionStatus(st), Reason: "CrashLoopBackOff", LastTransitionTime: at, LastUpdateTime: at})
		}
	}
	cond(v1.ConditionTypeCanaryPaused, c.PausedCond)
	cond(v1.ConditionTypeCanaryFailed, c.FailedCond)
	eds.Annotations = map[string]string{}
	if c.AnnPaused != "absent" {
		eds.Annotations[v1.ExtendedDaemonSetCanaryPausedAnnotationKey] = c.AnnPaused
	}
	if c.RUPaused {
		eds.Annotations[v1.ExtendedDaemonSetRollingUpdatePausedAnnotationKey] = "true"
	}
	if c.Frozen {
		eds.Annotations[v1.ExtendedDaemonSetRolloutFrozenAnnotationKey] = "true"
	}
	if c.Valid {
		eds.Annotations[v1.ExtendedDaemonSetCanaryValidAnnotationKey] = "foo-b"
	}
	objs := []client.Object{eds, rsB, w.MkNode("n1", nil), w.MkNode("n2", nil)}
	switch c.Active {
	case "a":
		eds.Status.ActiveReplicaSet = "foo-a"
		objs = append(objs, rsA)
	case "b":
		eds.Status.ActiveReplicaSet = "foo-b"
		objs = append(objs, rsA)
	case "empty":
		objs = append(objs, rsA)
	case "gone":
		eds.Status.ActiveReplicaSet = "foo-a"
	}
	if c.Leftover {
		objs = append(objs, rsC)
	}
	if c.HadCanary {
		eds.Status.Canary = &v1.ExtendedDaemonSetStatusCanary{ReplicaSet: "foo-b", Nodes: []string{"n1"}}
	}
	eds.Status.State = v1.ExtendedDaemonSetStatusStateRunning
	st := w.NewState(0, objs...)
	st.Now = now.Sub(w.Epoch)
	return st
}

func c14Eval(t *testing.T, run *h.Run, c c14Case) {
	sc := &w.Scenario{Name: "C14-lattice", Tpls: w.TplMap("A")}
	var pre *w.State
	w.InBubble(t, time.Hour, func() { pre = c14Build(c, time.Now()) })
	out := w.Step(t, sc, pre, w.Event{K: "R_eds", A: "ns/foo"})
	run.Count("lattice_reconciles", 1)
	if out.RR.Panic != nil {
		run.Violate(h.Violation{Signature: fmt.Sprintf("C14/panic: %v at %s", out.RR.Panic, out.RR.PanicSite), Monitor: "C14/lattice", Message: "", Replay: map[string]interface{}{"lattice_case": c}})
		return
	}
	mc := w.NewMonCtx(sc, pre, out, run, func() (int, []w.Event) { return 0, nil })
	mc.Extra = map[string]interface{}{"lattice_case": c}
	w.MonC14Status(mc)
	if e := out.Next.EDS("ns", "foo"); e != nil {
		run.Nontrivial(fmt.Sprintf("state=%s canary=%v err=%v", e.Status.State, e.Status.Canary != nil, out.RR.Err != nil))
	}
}

func c14Lattice(t *testing.T, run *h.Run) {
	var cases []c14Case
	tuples := []int{0, 1, 2, 3}
	if !h.Thorough() {
		tuples = []int{0, 2, 3}
	}
	for _, canary := range []bool{false, true} {
		for _, active := range []string{"a", "b", "empty", "gone"} {
			for _, left := range []bool{false, true} {
				for _, ca := range tuples {
					for _, cb := range tuples {
						for _, cc := range []int{0, 3} {
							if !left && cc != 0 {
								continue
							}
							for _, pc := range []string{"absent", "True", "False"} {
								for _, fc := range []string{"absent", "True", "False"} {
									for _, ap := range []string{"absent", "true", "false"} {
										if !canary && (pc != "absent" || fc != "absent" || ap != "absent") {
											continue
										}
										for _, flags := range []int{0, 1, 2, 3} {
											for _, valid := range []bool{false, true} {
												for _, had := range []bool{false, true} {
													for _, ended := range []bool{false, true} {
														if !canary && (valid || had || ended) {
															continue
														}
														cases = append(cases, c14Case{canary, active, left, ca, cb, cc, pc, fc, ap, flags&1 != 0, flags&2 != 0, valid, had, ended})
													}
												}
											}
										}
									}
								}
							}
						}
					}
				}
			}
		}
	}
	parallel(len(cases), func(i int) { c14Eval(t, run, cases[i]) })
	run.Sample(cases[len(cases)/3])
}
