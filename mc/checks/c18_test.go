package checks

import (
	"context"
	"fmt"
	"strings"
	"testing"
	"time"

	autoscalingv1 "k8s.io/api/autoscaling/v1"
	corev1 "k8s.io/api/core/v1"
	apiequality "k8s.io/apimachinery/pkg/api/equality"
	metav1 "k8s.io/apimachinery/pkg/apis/meta/v1"
	"sigs.k8s.io/controller-runtime/pkg/client"

	v1 "github.com/DataDog/extendeddaemonset/api/v1alpha1"

	"verif/mc/h"
	w "verif/mc/world"
)

type c18Setting struct {
	Sel string `json:"selector"`  // all a b ab exists bad
	Ref string `json:"reference"` // foo nil empty other
}

type c18Case struct {
	Settings   []c18Setting `json:"settings"`
	EqualTimes bool         `json:"equal_creation_times"`
	Nodes      []string     `json:"node_labels"` // "", "a", "b"
	Order      []int        `json:"reconcile_order"`
	// Before / BeforeOrder: an earlier population of the same objects (same names and creation times) that was fully
	// reconciled in BeforeOrder before the user edited it into Settings (reference added, selector repaired, a setting
	// deleted - reference "gone" in Settings); the statuses written then are still stored when Order starts
	// OwnLabels: the setting objects carry labels in their own metadata (a chart / kustomize overlay adds them); the
	// nodes do not carry those labels
	OwnLabels   bool         `json:"settings_carry_own_labels,omitempty"`
	Before      []c18Setting `json:"before,omitempty"`
	BeforeOrder []int        `json:"before_order,omitempty"`
}

func c18Selector(kind string) metav1.LabelSelector {
	switch kind {
	case "a", "b":
		return metav1.LabelSelector{MatchLabels: map[string]string{"k": kind}}
	case "ab":
		return metav1.LabelSelector{MatchExpressions: []metav1.LabelSelectorRequirement{{Key: "k", Operator: metav1.LabelSelectorOpIn, Values: []string{"a", "b"}}}}
	case "exists":
		return metav1.LabelSelector{MatchExpressions: []metav1.LabelSelectorRequirement{{Key: "k", Operator: metav1.LabelSelectorOpExists}}}
	case "bad":
		return metav1.LabelSelector{MatchExpressions: []metav1.LabelSelectorRequirement{{Key: "k", Operator: "Bogus", Values: []string{"a"}}}}
	}
	return metav1.LabelSelector{}
}

// refMatches: independent matcher; usable=false for a selector that cannot be evaluated.
func c18Matches(kind, nodeLabel string) (matches, usable bool) {
	switch kind {
	case "all":
		return true, true
	case "a", "b":
		return nodeLabel == kind, true
	case "ab":
		return nodeLabel == "a" || nodeLabel == "b", true
	case "exists":
		return nodeLabel != "", true
	}
	return false, false
}

func c18Build(c c18Case) []client.Object {
	var objs []client.Object
	for i, s := range c.Settings {
		if s.Ref == "gone" {
			continue
		}
		st := &v1.ExtendedDaemonsetSetting{ObjectMeta: metav1.ObjectMeta{Namespace: "ns", Name: fmt.Sprintf("set%d", i+1)},
			Spec: v1.ExtendedDaemonsetSettingSpec{NodeSelector: c18Selector(s.Sel),
				Containers: []v1.ExtendedDaemonsetSettingContainerSpec{{Name: "main", Resources: corev1.ResourceRequirements{Requests: corev1.ResourceList{corev1.ResourceCPU: qty(fmt.Sprintf("%d00m", i+1))}}}}}}
		if c.OwnLabels {
			st.Labels = map[string]string{"app.kubernetes.io/managed-by": "Helm", "k": "zzz"}
		}
		off := 0
		if !c.EqualTimes {
			off = i
		}
		st.CreationTimestamp = metav1.NewTime(w.Epoch.Add(time.Duration(off) * time.Minute))
		switch s.Ref {
		case "foo":
			st.Spec.Reference = &autoscalingv1.CrossVersionObjectReference{Kind: "ExtendedDaemonset", Name: "foo"}
		case "empty":
			st.Spec.Reference = &autoscalingv1.CrossVersionObjectReference{Kind: "ExtendedDaemonset", Name: ""}
		case "other":
			st.Spec.Reference = &autoscalingv1.CrossVersionObjectReference{Kind: "ExtendedDaemonset", Name: "bar"}
		}
		objs = append(objs, st)
	}
	// a setting of another namespace selecting every node: must never matter
	objs = append(objs, &v1.ExtendedDaemonsetSetting{ObjectMeta: metav1.ObjectMeta{Namespace: "elsewhere", Name: "set-all", CreationTimestamp: metav1.NewTime(w.Epoch.Add(time.Hour))},
		Spec: v1.ExtendedDaemonsetSettingSpec{Reference: &autoscalingv1.CrossVersionObjectReference{Name: "foo"}}})
	for i, l := range c.Nodes {
		lbl := map[string]string{}
		if l != "" {
			lbl["k"] = l
		}
		objs = append(objs, w.MkNode(fmt.Sprintf("n%d", i+1), lbl))
	}
	return objs
}

func c18Eval(t *testing.T, run *h.Run, c c18Case, withPods bool) {
	viol := func(sig, msg string) {
		run.Violate(h.Violation{Signature: sig, Monitor: "C18", Message: msg, Rank: int64(len(c.Settings)*10 + len(c.Nodes)), Replay: c})
	}
	w.InBubble(t, 2*time.Hour, func() {
		objs := c18Build(c)
		eds := w.NewEDS("ns", "foo", "A", w.WithFrequency(0), w.WithRolling("1", "100%", 250, 0))
		eds = v1.DefaultExtendedDaemonSet(eds, "auto")
		rs := mkERS("ns", "foo-a", "foo", w.Tpl("A"), w.Epoch)
		eds.Status.ActiveReplicaSet = rs.Name
		objs = append(objs, eds, rs)
		st := w.NewState(0, objs...)
		st.Now = 2 * time.Hour
		if withPods && len(c.Nodes) > 0 {
			// the replica-set controller may run BEFORE the setting controller has looked at a new setting: a setting that was
			// never declared valid must not influence pods
			l0 := w.NewLive(st, w.Config{})
			l0.API.ResetLog()
			l0.ReconcileERS("ns", rs.Name)
			run.Count("ers_reconciles", 1)
			for _, call := range l0.API.Log {
				if call.Kind == "Pod" && call.Verb == "create" {
					p := call.Obj.(*corev1.Pod)
					if p.Labels[v1.ExtendedDaemonSetSettingNameLabelKey] != "" || !apiequality.Semantic.DeepEqual(p.Spec.Containers[0].Resources, corev1.ResourceRequirements{}) {
						viol("C18/pods: a pod was influenced by a setting that has not been declared valid (not reconciled yet)", p.Labels[v1.ExtendedDaemonSetSettingNameLabelKey])
					}
				}
			}
		}
		if c.Before != nil {
			// first the earlier population, reconciled once each; then the edit (specs replaced / object deleted, statuses kept)
			cb := c
			cb.Settings, cb.Before = c.Before, nil
			objsB := append(c18Build(cb), eds, rs)
			stB := w.NewState(0, objsB...)
			stB.Now = 2 * time.Hour
			lb := w.NewLive(stB, w.Config{})
			for _, i := range c.BeforeOrder {
				lb.ReconcileSetting("ns", fmt.Sprintf("set%d", i+1))
				run.Count("setting_reconciles", 1)
			}
			if withPods && len(c.Nodes) > 0 {
				// pods are created under the earlier population: what becomes of them after the edit is judged below
				lb.ReconcileERS("ns", rs.Name)
				run.Count("ers_reconciles", 1)
				for _, p := range lb.Capture(stB).Pods() { // the kubelets start them: they are available when the edit comes
					w.MakeReady(context.Background(), lb.API.Inner(), p)
				}
			}
			mid := lb.Capture(stB)
			var edited []client.Object
			for _, o := range mid.Objs {
				if cur, ok := o.O.(*v1.ExtendedDaemonsetSetting); ok && cur.Namespace == "ns" {
					var i int
					fmt.Sscanf(cur.Name, "set%d", &i)
					if c.Settings[i-1].Ref == "gone" {
						continue
					}
					for _, nb := range objs {
						if n, ok := nb.(*v1.ExtendedDaemonsetSetting); ok && n.Namespace == "ns" && n.Name == cur.Name {
							cp := cur.DeepCopy()
							cp.Spec = *n.Spec.DeepCopy()
							edited = append(edited, cp)
						}
					}
					continue
				}
				edited = append(edited, o.O)
			}
			st = w.NewState(0, edited...)
			st.Now = 2 * time.Hour
			run.Count("antecedent:C18/history", 1)
		}
		l := w.NewLive(st, w.Config{})
		for _, i := range c.Order {
			if c.Settings[i].Ref == "gone" {
				continue
			}
			rr := l.ReconcileSetting("ns", fmt.Sprintf("set%d", i+1))
			run.Count("setting_reconciles", 1)
			if rr.Panic != nil {
				viol(fmt.Sprintf("C18/panic: %v at %s", rr.Panic, rr.PanicSite), "")
				return
			}
		}
		post := l.Capture(st)
		if len(c.Settings) == 2 && len(c.Order) == 2 && c.Before == nil {
			c18ReadFaults(t, run, c, st)
		}
		status := map[int]*v1.ExtendedDaemonsetSetting{}
		for _, s := range post.Settings() {
			var i int
			if s.Namespace == "ns" {
				fmt.Sscanf(s.Name, "set%d", &i)
				status[i-1] = s
			}
		}
		wellFormed := func(i int) bool {
			if c.Settings[i].Ref == "gone" {
				return false
			}
			_, usable := c18Matches(c.Settings[i].Sel, "")
			return usable && (c.Settings[i].Ref == "foo" || c.Settings[i].Ref == "other")
		}
		overlap := func(i, j int) bool {
			if c.Settings[i].Ref == "gone" || c.Settings[j].Ref == "gone" {
				return false
			}
			for _, nl := range c.Nodes {
				mi, ui := c18Matches(c.Settings[i].Sel, nl)
				mj, uj := c18Matches(c.Settings[j].Sel, nl)
				if ui && uj && mi && mj {
					return true
				}
			}
			return false
		}
		for i := range c.Settings {
			s := status[i]
			if s == nil {
				continue
			}
			valid := s.Status.Status == v1.ExtendedDaemonsetSettingStatusValid
			if !wellFormed(i) {
				if s.Status.Status != v1.ExtendedDaemonsetSettingStatusError {
					viol("C18/error: a setting without reference or with an unusable selector is not in error", fmt.Sprintf("set%d %s/%s status=%q", i+1, c.Settings[i].Sel, c.Settings[i].Ref, s.Status.Status))
				}
				continue
			}
			overlapsAny, overlapsWellFormed := false, false
			for j := range c.Settings {
				if j != i && overlap(i, j) {
					overlapsAny = true
					if wellFormed(j) {
						overlapsWellFormed = true
					}
					if valid && status[j] != nil && status[j].Status.Status == v1.ExtendedDaemonsetSettingStatusValid {
						viol("C18/conflict: two settings whose selectors overlap on a node are both valid", fmt.Sprintf("set%d and set%d", i+1, j+1))
					}
				}
			}
			if !overlapsAny && !valid {
				third := ""
				for j := range c.Settings {
					if _, u := c18Matches(c.Settings[j].Sel, ""); !u && j != i {
						third = " (another setting of the namespace has an unusable selector)"
					}
				}
				viol("C18/valid: a well-formed setting overlapping no other is not valid"+third, fmt.Sprintf("set%d status=%q error=%q", i+1, s.Status.Status, s.Status.Error))
			}
			if overlapsWellFormed && !valid && !strings.Contains(s.Status.Error, "conflict") {
				viol("C18/conflict: the losing setting of an overlap does not report a conflict", fmt.Sprintf("set%d error=%q", i+1, s.Status.Error))
			}
			if overlapsAny {
				run.Nontrivial(fmt.Sprintf("overlap:%s/%s:%v", c.Settings[i].Sel, c.Settings[i].Ref, valid))
			} else {
				run.Nontrivial(fmt.Sprintf("alone:%s/%s:%v", c.Settings[i].Sel, c.Settings[i].Ref, valid))
			}
		}
		if !withPods || len(c.Nodes) == 0 {
			return
		}
		// only valid settings influence pods; every node is affected by at most one
		l.API.ResetLog()
		rr := l.ReconcileERS("ns", rs.Name)
		run.Count("ers_reconciles", 1)
		if rr.Panic != nil {
			viol(fmt.Sprintf("C18/panic: %v at %s", rr.Panic, rr.PanicSite), "")
			return
		}
		firstLog := append([]*w.Call{}, l.API.Log...)
		if c.Before != nil {
			// pods that existed before this sync (created under an earlier population of settings): "only valid settings
			// influence pods" - with the kubelets doing their part, repeated syncs leave every pod with the resources of
			// the one valid setting selecting its node (or the template's when there is none)
			ctx := context.Background()
			for round := 0; round < len(c.Nodes)+3; round++ {
				for _, p := range l.Capture(post).Pods() {
					if p.DeletionTimestamp != nil {
						w.RemovePod(ctx, l.API.Inner(), p)
					} else if !w.IsReady(p) {
						w.MakeReady(ctx, l.API.Inner(), p)
					}
				}
				if rr := l.ReconcileERS("ns", rs.Name); rr.Panic != nil {
					viol(fmt.Sprintf("C18/panic: %v at %s", rr.Panic, rr.PanicSite), "")
					return
				}
				run.Count("ers_reconciles", 1)
			}
			end := l.Capture(post)
			for _, p := range end.Pods() {
				node := end.Node(w.TargetNode(p))
				if p.DeletionTimestamp != nil || node == nil || p.Labels[v1.ExtendedDaemonSetNameLabelKey] != "foo" {
					continue
				}
				var applicable []*v1.ExtendedDaemonsetSetting
				for i, st := range status {
					m, _ := c18Matches(c.Settings[i].Sel, node.Labels["k"])
					if st != nil && st.Status.Status == v1.ExtendedDaemonsetSettingStatusValid && c.Settings[i].Ref == "foo" && m {
						applicable = append(applicable, st)
					}
				}
				if len(applicable) > 1 {
					continue // judged by the conflict clause
				}
				want := corev1.ResourceRequirements{}
				if len(applicable) == 1 {
					want = applicable[0].Spec.Containers[0].Resources
				}
				run.Count("antecedent:C18/earlier-pod", 1)
				if !apiequality.Semantic.DeepEqual(p.Spec.Containers[0].Resources, want) {
					viol("C18/stale-pod: a pod created under a setting that is no longer the valid setting of its node keeps that setting's resources however often the replica set is synced",
						fmt.Sprintf("pod %s names %q, resources %v, wanted %v", p.Name, p.Labels[v1.ExtendedDaemonSetSettingNameLabelKey], p.Spec.Containers[0].Resources.Requests, want.Requests))
				}
			}
		}
		for _, call := range firstLog {
			if call.Kind != "Pod" || call.Verb != "create" {
				continue
			}
			p := call.Obj.(*corev1.Pod)
			node := post.Node(w.TargetNode(p))
			name := p.Labels[v1.ExtendedDaemonSetSettingNameLabelKey]
			if name == "" {
				if !apiequality.Semantic.DeepEqual(p.Spec.Containers[0].Resources, corev1.ResourceRequirements{}) {
					viol("C18/pods: a pod carries setting resources without naming a setting", p.Spec.NodeName)
				}
				continue
			}
			var i int
			fmt.Sscanf(name, "set%d", &i)
			s := status[i-1]
			if s == nil || p.Labels[v1.ExtendedDaemonSetSettingNamespaceLabelKey] != "ns" {
				viol("C18/pods: a pod names a setting that does not exist in its namespace", name)
				continue
			}
			nl := ""
			if node != nil {
				nl = node.Labels["k"]
			}
			m, _ := c18Matches(c.Settings[i-1].Sel, nl)
			if s.Status.Status != v1.ExtendedDaemonsetSettingStatusValid || c.Settings[i-1].Ref != "foo" || !m {
				viol("C18/pods: a pod was influenced by a setting that is not valid, not for this ExtendedDaemonSet or not selecting the node", fmt.Sprintf("%s status=%s ref=%s matches=%v", name, s.Status.Status, c.Settings[i-1].Ref, m))
			}
			if !apiequality.Semantic.DeepEqual(p.Spec.Containers[0].Resources, s.Spec.Containers[0].Resources) {
				viol("C18/pods: pod resources are not those of the one setting it names", name)
			}
			run.Nontrivial("pod-with-setting")
		}
	})
}

func permutations(n int) [][]int {
	if n == 0 {
		return [][]int{{}}
	}
	var out [][]int
	var rec func(cur []int, used int)
	rec = func(cur []int, used int) {
		if len(cur) == n {
			out = append(out, append([]int{}, cur...))
			return
		}
		for i := 0; i < n; i++ {
			if used&(1<<i) == 0 {
				rec(append(cur, i), used|1<<i)
			}
		}
	}
	rec(nil, 0)
	return out
}

func TestC18(t *testing.T) {
	run := h.NewRun("C18", "model_checking")
	if rp := replayFile(); rp != nil {
		var c c18Case
		rp.decode(&c)
		c18Eval(t, run, c, true)
		exit(run.Finish("replay"))
	}
	sels := []string{"all", "a", "b", "ab", "exists", "bad"}
	refs := []string{"foo", "nil", "other"}
	maxSettings := 3
	nodePops := [][]string{{}, {"a"}, {"a", "b"}, {"", "a", "b"}}
	if h.Thorough() {
		refs = []string{"foo", "nil", "empty", "other"}
		nodePops = append(nodePops, []string{"a", "a", "b", ""})
	}
	var variants []c18Setting
	for _, s := range sels {
		for _, r := range refs {
			variants = append(variants, c18Setting{s, r})
		}
	}
	var cases []c18Case
	var rec func(cur []c18Setting)
	rec = func(cur []c18Setting) {
		if len(cur) > 0 {
			for _, eq := range []bool{false, true} {
				for _, np := range nodePops {
					for _, ord := range permutations(len(cur)) {
						cases = append(cases, c18Case{Settings: append([]c18Setting{}, cur...), EqualTimes: eq, Nodes: np, Order: ord})
						if len(cur) == 2 {
							cases = append(cases, c18Case{Settings: append([]c18Setting{}, cur...), EqualTimes: eq, Nodes: np, Order: ord, OwnLabels: true})
						}
						if len(cur) == 2 { // twice around
							cases = append(cases, c18Case{Settings: append([]c18Setting{}, cur...), EqualTimes: eq, Nodes: np, Order: append(append([]int{}, ord...), ord...)})
						}
					}
				}
			}
		}
		if len(cur) == maxSettings {
			return
		}
		for _, v := range variants {
			if len(cur) == 2 && !h.Thorough() && v.Ref == "other" {
				continue
			}
			rec(append(cur, v))
		}
	}
	rec(nil)
	if h.Thorough() {
		// four settings over a reduced alphabet
		small := []c18Setting{{"a", "foo"}, {"ab", "foo"}, {"bad", "foo"}, {"all", "nil"}}
		for _, a := range small {
			for _, b := range small {
				for _, c := range small {
					for _, d := range small {
						for _, ord := range permutations(4) {
							cases = append(cases, c18Case{Settings: []c18Setting{a, b, c, d}, Nodes: []string{"", "a", "b"}, Order: ord})
						}
					}
				}
			}
		}
	}
	// histories: a population that was reconciled once, then edited (a missing reference added, an unusable selector
	// repaired, a setting deleted), then every setting reconciled once more in every order. Overlapping pairs and triples
	// over a reduced alphabet; whatever statuses the first pass left behind, the second pass must settle the conflicts.
	hsel := []string{"a", "ab", "exists"}
	var hist [][]c18Setting
	for _, a := range hsel {
		for _, b := range hsel {
			hist = append(hist, []c18Setting{{a, "foo"}, {b, "foo"}})
			for _, c3 := range hsel[:2] {
				hist = append(hist, []c18Setting{{a, "foo"}, {b, "foo"}, {c3, "foo"}})
			}
		}
	}
	nHist := 0
	for _, final := range hist {
		for i := range final {
			var befores [][]c18Setting
			var finals [][]c18Setting
			b1 := append([]c18Setting{}, final...)
			b1[i].Ref = "nil"
			befores, finals = append(befores, b1), append(finals, final)
			b2 := append([]c18Setting{}, final...)
			b2[i].Sel = "bad"
			befores, finals = append(befores, b2), append(finals, final)
			f3 := append([]c18Setting{}, final...)
			f3[i].Ref = "gone"
			befores, finals = append(befores, final), append(finals, f3)
			for k := range befores {
				for _, o1 := range permutations(len(final)) {
					for _, o2 := range permutations(len(final)) {
						cases = append(cases, c18Case{Settings: finals[k], Nodes: []string{"", "a", "b"}, Order: o2, Before: befores[k], BeforeOrder: o1})
						nHist++
					}
				}
			}
		}
	}
	run.Count("history_cases", int64(nHist))
	parallel(len(cases), func(i int) {
		c := cases[i]
		first := true
		for k, o := range c.Order {
			if o != k {
				first = false
			}
		}
		c18Eval(t, run, c, first)
	})
	run.Cov["evaluations"] = int64(len(cases))
	run.Cov["states"] = int64(len(cases))
	run.Cov["transitions"] = run.Counter("setting_reconciles") + run.Counter("ers_reconciles")
	run.Cov["traces_validated_against_impl"] = run.Counter("ers_reconciles")
	run.Sample(cases[len(cases)/3])
	run.Sample(cases[len(cases)/2])
	run.Assumptions = []string{"a selector with an operator outside In/NotIn/Exists/DoesNotExist is unusable and selects no node", "the CRD schema accepts any operator string (checked in config/crd)"}
	exit(run.Finish(fmt.Sprintf("lattice: every population of 1..%d settings over 6 selector kinds x %d reference kinds (+ one setting of another namespace), equal or ordered creation times, 4-5 node populations, every order of reconciling each setting once (and twice around for pairs) through the real setting Reconcile, then one real R_ers to see which setting reaches the pods; non-trivial = distinct (selector, reference, alone/overlap, outcome)", maxSettings, len(refs))))
}

// c18ReadFaults: the same two reconciles with every single read of either of them rejected: whatever the outcome of the
// faulted reconcile, two settings overlapping on a node must never both end up valid.
func c18ReadFaults(t *testing.T, run *h.Run, c c18Case, st *w.State) {
	overlap := false
	for _, nl := range c.Nodes {
		m0, u0 := c18Matches(c.Settings[0].Sel, nl)
		m1, u1 := c18Matches(c.Settings[1].Sel, nl)
		if m0 && m1 && u0 && u1 {
			overlap = true
		}
	}
	if !overlap {
		return
	}
	for step := 0; step < 2; step++ {
		for k := 0; k < 4; k++ { // a setting reconcile makes at most 3 reads (get, list settings, list nodes)
			l := w.NewLive(st, w.Config{})
			fired := false
			for i, idx := range c.Order {
				l.API.ResetLog()
				l.API.FaultFn = nil
				if i == step {
					k := k
					l.API.FaultFn = func(n int, call *w.Call) string {
						if n == k && !call.IsWrite() {
							fired = true
							return w.FaultReject
						}
						return ""
					}
				}
				before := l.Capture(st)
				rr := l.ReconcileSetting("ns", fmt.Sprintf("set%d", idx+1))
				if i == step && fired {
					// a reconcile that could not read the cluster state has not judged anything: it reports the failure (and is
					// retried) instead of storing a verdict and reporting success
					run.Count("antecedent:C18/rejected-read", 1)
					name := fmt.Sprintf("set%d", idx+1)
					var b, a *v1.ExtendedDaemonsetSetting
					for _, x := range before.Settings() {
						if x.Namespace == "ns" && x.Name == name {
							b = x
						}
					}
					for _, x := range l.Capture(st).Settings() {
						if x.Namespace == "ns" && x.Name == name {
							a = x
						}
					}
					if rr.Err == nil && rr.Panic == nil {
						msg := ""
						if a != nil && b != nil {
							msg = fmt.Sprintf("status %q/%q -> %q/%q", b.Status.Status, b.Status.Error, a.Status.Status, a.Status.Error)
						}
						run.Violate(h.Violation{Signature: "C18/read-fault: a setting reconcile whose read of the cluster state was rejected reports success (no retry) instead of the error", Monitor: "C18/read-fault",
							Message: msg, Rank: int64(len(c.Nodes)), Replay: map[string]interface{}{"case": c, "faulted_reconcile": step, "read_index": k}})
					}
				}
			}
			if !fired {
				continue
			}
			run.Count("read_fault_runs", 1)
			post := l.Capture(st)
			valid := 0
			for _, s := range post.Settings() {
				if s.Namespace == "ns" && s.Status.Status == v1.ExtendedDaemonsetSettingStatusValid {
					valid++
				}
			}
			if valid > 1 {
				run.Violate(h.Violation{Signature: "C18/conflict: two settings whose selectors overlap on a node are both valid (after a rejected read in one of the reconciles)", Monitor: "C18/read-fault",
					Message: fmt.Sprintf("fault at read %d of reconcile %d", k, step), Rank: int64(len(c.Nodes)), Replay: map[string]interface{}{"case": c, "faulted_reconcile": step, "read_index": k}})
			}
		}
	}
}
