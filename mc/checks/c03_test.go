package checks

import (
	"context"
	"fmt"
	"strings"
	"sync"
	"sync/atomic"
	"testing"
	"time"

	corev1 "k8s.io/api/core/v1"
	metav1 "k8s.io/apimachinery/pkg/apis/meta/v1"
	"k8s.io/apimachinery/pkg/util/intstr"
	"sigs.k8s.io/controller-runtime/pkg/client"

	v1 "github.com/DataDog/extendeddaemonset/api/v1alpha1"

	"verif/mc/h"
	w "verif/mc/world"
)

// node classes of the C03 lattice
const (
	cNoPod = iota
	cUpAvail
	cUpUnavail
	cOldAvail
	cOldUnavail
	cOldTerminating // terminating within its grace period (still Ready)
	cStuckUnsched   // created > 10 min ago, never scheduled
	cStuckTerm      // terminating, grace period long over
	cOldDSAvail     // adopted from the old DaemonSet: no template-hash annotation, available
	cOldFailed      // outdated pod in phase Failed that the failed-pods back-off keeps on its node for now
	cUpTerminating  // up to date, still Ready, but terminating within its grace period (deleted by a user / a drain)
	c03Classes
)

var c03ClassNames = []string{"none", "upAvail", "upUnavail", "oldAvail", "oldUnavail", "oldTerm", "stuckUnsched", "stuckTerm", "oldDSAvail", "oldFailed", "upTerm"}

func c03Names(cl []int) []string {
	out := make([]string, len(cl))
	for i, c := range cl {
		out[i] = c03ClassNames[c]
	}
	return out
}

// c03Oracle: the statement of C03 on one sync. deleted[i] = the pod of node i was deleted for updating.
func c03Oracle(classes []int, deleted []bool, mu, mpsf int) (string, string) {
	n := len(classes)
	withoutAvail, stuck, oldUnavail := 0, 0, 0
	for _, c := range classes {
		switch c {
		case cUpAvail, cOldAvail, cOldDSAvail:
		default:
			withoutAvail++
		}
		if c == cStuckUnsched || c == cStuckTerm {
			stuck++
		}
		if c == cOldUnavail || c == cOldFailed {
			oldUnavail++
		}
	}
	U := withoutAvail - min(stuck, mpsf)
	budget := max(0, mu-U)
	delAvail, delTotal, delOldUnavail := 0, 0, 0
	for i, d := range deleted {
		if !d {
			continue
		}
		delTotal++
		switch classes[i] {
		case cOldAvail, cOldDSAvail:
			delAvail++
		case cOldUnavail, cOldFailed:
			delOldUnavail++
		default:
			return "C03/target: a pod that is not an outdated, non-terminating pod was deleted for updating",
				fmt.Sprintf("node %d class %s", i, c03ClassNames[classes[i]])
		}
	}
	_ = n
	if delTotal > mu {
		return "C03/total: more than maxUnavailable pods deleted for updating in one sync", fmt.Sprintf("deleted %d > maxUnavailable %d", delTotal, mu)
	}
	if delAvail > budget {
		return "C03/budget: available pods deleted beyond max(0, maxUnavailable-U)", fmt.Sprintf("deleted %d available pods, U=%d maxUnavailable=%d budget=%d", delAvail, U, mu, budget)
	}
	if delAvail > 0 && delOldUnavail < oldUnavail {
		return "C03/order: available pod deleted while an outdated unavailable pod is kept", fmt.Sprintf("%d of %d outdated-unavailable pods deleted, %d available deleted", delOldUnavail, oldUnavail, delAvail)
	}
	return "", ""
}

// c03Pod builds the pod of a node for a class (nil for cNoPod). now = instant of the sync.
func c03Pod(class int, ns, rsName, edsName, node, hash string, now time.Time) *corev1.Pod {
	if class == cNoPod {
		return nil
	}
	p := &corev1.Pod{ObjectMeta: metav1.ObjectMeta{Namespace: ns, Name: rsName + "-" + node, CreationTimestamp: metav1.NewTime(now.Add(-time.Hour)),
		Labels:      map[string]string{v1.ExtendedDaemonSetNameLabelKey: edsName, v1.ExtendedDaemonSetReplicaSetNameLabelKey: rsName},
		Annotations: map[string]string{v1.MD5ExtendedDaemonSetAnnotationKey: hash}, Finalizers: []string{w.PodFinalizer}},
		Spec:   corev1.PodSpec{NodeName: node, Containers: []corev1.Container{{Name: "main", Image: "A"}}},
		Status: corev1.PodStatus{Phase: corev1.PodRunning}}
	ready := func(b bool) {
		st := corev1.ConditionFalse
		if b {
			st = corev1.ConditionTrue
		}
		p.Status.Conditions = []corev1.PodCondition{{Type: corev1.PodReady, Status: st, LastTransitionTime: metav1.NewTime(now.Add(-30 * time.Minute))}}
	}
	old := "0ld0ld0ld0ld"
	switch class {
	case cUpAvail:
		ready(true)
	case cUpUnavail:
		ready(false)
	case cOldAvail:
		p.Annotations[v1.MD5ExtendedDaemonSetAnnotationKey] = old
		ready(true)
	case cOldUnavail:
		p.Annotations[v1.MD5ExtendedDaemonSetAnnotationKey] = old
		ready(false)
		// younger than the available outdated pods (re-created by the previous replica set shortly before the template
		// was edited): the order of replacement must not follow age
		p.CreationTimestamp = metav1.NewTime(now.Add(-5 * time.Minute))
	case cOldTerminating:
		p.Annotations[v1.MD5ExtendedDaemonSetAnnotationKey] = old
		ready(true)
		dt := metav1.NewTime(now.Add(-5 * time.Second))
		g := int64(30)
		p.DeletionTimestamp, p.DeletionGracePeriodSeconds = &dt, &g
	case cStuckUnsched:
		p.Spec.NodeName = ""
		p.Spec.Affinity = &corev1.Affinity{NodeAffinity: &corev1.NodeAffinity{RequiredDuringSchedulingIgnoredDuringExecution: &corev1.NodeSelector{
			NodeSelectorTerms: []corev1.NodeSelectorTerm{{MatchFields: []corev1.NodeSelectorRequirement{{Key: "metadata.name", Operator: corev1.NodeSelectorOpIn, Values: []string{node}}}}}}}}
		p.Status.Phase = corev1.PodPending
		p.CreationTimestamp = metav1.NewTime(now.Add(-11 * time.Minute))
		ready(false)
	case cStuckTerm:
		ready(false)
		dt := metav1.NewTime(now.Add(-10 * time.Minute))
		g := int64(30)
		p.DeletionTimestamp, p.DeletionGracePeriodSeconds = &dt, &g
	case cUpTerminating:
		ready(true)
		dt := metav1.NewTime(now.Add(-5 * time.Second))
		g := int64(3600)
		p.DeletionTimestamp, p.DeletionGracePeriodSeconds = &dt, &g
	case cOldFailed:
		p.Annotations[v1.MD5ExtendedDaemonSetAnnotationKey] = old
		p.Status.Phase = corev1.PodFailed
		ready(false)
	case cOldDSAvail:
		delete(p.Annotations, v1.MD5ExtendedDaemonSetAnnotationKey)
		p.Labels = map[string]string{"app": "old-ds", v1.ExtendedDaemonSetNameLabelKey: edsName}
		ready(true)
	}
	return p
}

type c03Config struct {
	mu, mpsf string
	// stale: what the replica set's stored status.desired says relative to the nodes of this sync (0 = consistent)
	stale int
	// migration: the object declares a migration from DaemonSet "old" whose selector (app=agent) also matches the
	// ExtendedDaemonSet's own pods (same template labels, the usual case); the old pods are owned by that DaemonSet
	migration bool
	// migrationLabelled: the old DaemonSet's pods also carry the ExtendedDaemonSet's name label (the DaemonSet's template had
	// it already): each of them is returned by both pod lists of the sync
	migrationLabelled bool
	// cordoned: every node carries node.kubernetes.io/unschedulable:NoSchedule (a node-condition taint every daemon pod
	// tolerates): the nodes stay targeted
	cordoned bool
}

func c03Configs() []c03Config {
	var out []c03Config
	for _, mu := range []string{"0", "1", "2", "3", "25%", "50%", "100%"} {
		for _, mf := range []string{"0", "1", "50%"} {
			out = append(out, c03Config{mu: mu, mpsf: mf})
			if mf == "0" && (mu == "1" || mu == "50%") {
				out = append(out, c03Config{mu: mu, mpsf: mf, migration: true})
				out = append(out, c03Config{mu: mu, mpsf: mf, migration: true, migrationLabelled: true})
				out = append(out, c03Config{mu: mu, mpsf: mf, cordoned: true})
			}
			if strings.HasSuffix(mu, "%") && mf == "0" {
				// the stored status may describe a larger or an empty cluster (nodes left / first sync)
				out = append(out, c03Config{mu: mu, mpsf: mf, stale: 3}, c03Config{mu: mu, mpsf: mf, stale: -100})
			}
		}
	}
	return out
}

func resolveStr(s string, n int) int {
	v := intstr.Parse(s)
	r, _ := w.Resolve(&v, n)
	return r
}

// forEachSeq enumerates every sequence of classes of length n.
func forEachSeq(n, base int, f func(seq []int)) {
	seq := make([]int, n)
	for {
		f(seq)
		i := n - 1
		for i >= 0 {
			seq[i]++
			if seq[i] < base {
				break
			}
			seq[i] = 0
			i--
		}
		if i < 0 {
			return
		}
	}
}

// c03Twin: Reconcile-level version — a real R_ers on a prepared store; the per-node map is filled in
// node-list order (sorted by name), so the class sequence is also the iteration order.
func c03Twin(t *testing.T, run *h.Run, maxN int) {
	cfgs := c03Configs()
	type job struct {
		seq []int
	}
	jobs := make(chan job, 256)
	var wg sync.WaitGroup
	var evals int64
	for wk := 0; wk < 16; wk++ {
		wg.Add(1)
		go func() {
			defer wg.Done()
			for j := range jobs {
				for _, cfg := range cfgs {
					c03TwinOne(t, run, j.seq, cfg)
					atomic.AddInt64(&evals, 1)
				}
			}
		}()
	}
	for n := 1; n <= maxN; n++ {
		forEachSeq(n, c03Classes, func(seq []int) { jobs <- job{append([]int{}, seq...)} })
	}
	close(jobs)
	wg.Wait()
	run.Count("twin_reconciles", evals)
}

func c03TwinOne(t *testing.T, run *h.Run, seq []int, cfg c03Config) {
	c03TwinEval(t, run, "C03", seq, cfg, func(deleted []bool, mu, mf int) (string, string) { return c03Oracle(seq, deleted, mu, mf) })
}

// c03TwinEval runs one real replica-set sync on the prepared store and hands the set of deleted pods to judge.
func c03TwinEval(t *testing.T, run *h.Run, prop string, seq []int, cfg c03Config, judge func(deleted []bool, mu, mf int) (string, string)) {
	at := time.Hour
	w.InBubble(t, at, func() {
		now := time.Now()
		eds := w.NewEDS("ns", "foo", "A", w.WithFrequency(10*time.Second), w.WithRolling(cfg.mu, "100%", 250, time.Minute))
		eds.Spec.Strategy.RollingUpdate.MaxPodSchedulerFailure = w.IntOrStr(cfg.mpsf)
		eds = v1.DefaultExtendedDaemonSet(eds, v1.ExtendedDaemonSetSpecStrategyCanaryValidationModeAuto)
		hash := w.TemplateHash(&eds.Spec.Template)
		rs := &v1.ExtendedDaemonSetReplicaSet{ObjectMeta: metav1.ObjectMeta{Namespace: "ns", Name: "foo-rs", UID: "rs-uid", CreationTimestamp: metav1.NewTime(now.Add(-2 * time.Hour)),
			Labels: map[string]string{v1.ExtendedDaemonSetNameLabelKey: "foo"}, Annotations: map[string]string{v1.MD5ExtendedDaemonSetAnnotationKey: hash},
			OwnerReferences: []metav1.OwnerReference{{APIVersion: "datadoghq.com/v1alpha1", Kind: "ExtendedDaemonSet", Name: "foo", UID: eds.UID, Controller: ptrTrue()}}},
			Spec: v1.ExtendedDaemonSetReplicaSetSpec{Template: eds.Spec.Template, TemplateGeneration: hash}}
		rs.Status.Conditions = []v1.ExtendedDaemonSetReplicaSetCondition{{Type: v1.ConditionTypeActive, Status: corev1.ConditionTrue,
			LastTransitionTime: metav1.NewTime(now.Add(-time.Hour)), LastUpdateTime: metav1.NewTime(now.Add(-time.Hour))}}
		eds.Status.ActiveReplicaSet = rs.Name
		rs.Status.Desired = int32(max(0, len(seq)+cfg.stale))
		objs := []client.Object{eds, rs}
		podName := map[string]int{}
		for i, c := range seq {
			node := fmt.Sprintf("n%d", i+1)
			if cfg.cordoned {
				objs = append(objs, w.MkNode(node, nil, corev1.Taint{Key: "node.kubernetes.io/unschedulable", Effect: corev1.TaintEffectNoSchedule}))
			} else {
				objs = append(objs, w.MkNode(node, nil))
			}
			if p := c03Pod(c, "ns", rs.Name, "foo", node, hash, now); p != nil {
				if cfg.migration {
					p.Labels["app"] = "agent"
					if c == cOldDSAvail {
						tr := true
						p.Labels = map[string]string{"app": "agent"}
						if cfg.migrationLabelled {
							p.Labels[v1.ExtendedDaemonSetNameLabelKey] = "foo"
						}
						p.OwnerReferences = []metav1.OwnerReference{{APIVersion: "apps/v1", Kind: "DaemonSet", Name: "old", Controller: &tr}}
					}
				}
				objs = append(objs, p)
				podName[p.Name] = i
			}
		}
		if cfg.migration {
			eds.Annotations = map[string]string{v1.ExtendedDaemonSetOldDaemonsetAnnotationKey: "old"}
			objs = append(objs, oldDS("ns", "old", map[string]string{"app": "agent"}))
		}
		st := w.NewState(0, objs...)
		for i, c := range seq {
			if c == cOldFailed {
				// the pod before this one failed 5 s ago on the same node and was cleaned up: the back-off holds this one
				if st.Backoff == nil {
					st.Backoff = map[string]w.BackoffEntry{}
				}
				st.Backoff[fmt.Sprintf("rs-uid/foo-rs/n%d", i+1)] = w.BackoffEntry{Backoff: 10 * time.Minute, LastUpdate: at - 5*time.Second}
			}
		}
		l := w.NewLive(st, w.Config{})
		l.API.ResetLog()
		rr := l.ReconcileERS("ns", rs.Name)
		if rr.Panic != nil {
			run.Violate(h.Violation{Signature: fmt.Sprintf(prop+"/panic: %v at %s", rr.Panic, rr.PanicSite), Monitor: prop + "/twin", Message: fmt.Sprint(rr.Panic),
				Replay: map[string]interface{}{"level": "reconcile", "classes": c03Names(seq), "maxUnavailable": cfg.mu, "maxPodSchedulerFailure": cfg.mpsf}})
			return
		}
		deleted := make([]bool, len(seq))
		nd := 0
		for _, c := range l.API.Log {
			if c.Verb == "delete" && c.Kind == "Pod" {
				if i, ok := podName[c.Name]; ok {
					deleted[i] = true
					nd++
				}
			}
		}
		mu := resolveStr(cfg.mu, len(seq))
		mf := resolveStr(cfg.mpsf, len(seq))
		if sig, msg := judge(deleted, mu, mf); sig != "" {
			run.Violate(h.Violation{Signature: sig, Monitor: prop + "/twin", Message: msg, Rank: int64(len(seq)),
				Replay: map[string]interface{}{"level": "reconcile", "classes": c03Names(seq), "maxUnavailable": cfg.mu, "maxPodSchedulerFailure": cfg.mpsf, "stored_status_desired_offset": cfg.stale, "migration_overlapping_selector": cfg.migration, "old_pods_carry_name_label": cfg.migrationLabelled, "nodes_cordoned": cfg.cordoned, "deleted": deleted}})
		}
		if nd > 0 {
			run.Nontrivial(fmt.Sprintf("twin:n=%d del=%d mu=%s", len(seq), nd, cfg.mu))
		}
	})
	_ = context.Background
}

func ptrTrue() *bool { b := true; return &b }

func TestC03(t *testing.T) {
	run := h.NewRun("C03", "model_checking")
	maxN, twinN := 5, 3
	if h.Thorough() {
		maxN, twinN = 7, 4
	}
	helperOK := c03Helper(t, run, maxN)
	if !helperOK {
		run.Note("helper-level harness unavailable: Reconcile-level twin only")
		twinN++
	}
	c03Twin(t, run, twinN)
	ev := run.Counter("helper_calls") + run.Counter("twin_reconciles")
	run.Cov["evaluations"] = ev
	run.Cov["states"] = ev
	run.Cov["transitions"] = ev
	run.Cov["traces_validated_against_impl"] = run.Counter("twin_reconciles")
	run.Sample(map[string]interface{}{"classes": []string{"oldAvail", "oldUnavail"}, "maxUnavailable": "1", "maxPodSchedulerFailure": "0"})
	run.Sample(map[string]interface{}{"classes": []string{"stuckUnsched", "oldAvail", "none"}, "maxUnavailable": "50%", "maxPodSchedulerFailure": "1"})
	run.Assumptions = []string{"map iteration order controlled by the tool-chain overlay (<= 8 entries: insertion order)",
		"a terminating pod counts as not available (the statement's 'available daemon pod')"}
	exit(run.Finish(fmt.Sprintf("every sequence (= node assignment AND map iteration order) of 10-11 node classes for 1..min(%d,6) nodes (7 nodes: 5 core classes) x 7 maxUnavailable x 3 maxPodSchedulerFailure through the real ManageDeployment; Reconcile-level twin (real R_ers on a prepared store) for 1..%d nodes; non-trivial = syncs that delete at least one pod, distinct by (n, #deleted, maxUnavailable)", maxN, twinN)))
}
