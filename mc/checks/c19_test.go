package checks

import (
	"crypto/md5"
	"encoding/hex"
	"fmt"
	"strings"
	"testing"
	"time"

	v1 "github.com/DataDog/extendeddaemonset/api/v1alpha1"

	"verif/mc/h"
	w "verif/mc/world"
)

var allKubectl = []string{"canary-pause", "canary-unpause", "canary-validate", "canary-fail", "pause-rolling-update", "unpause-rolling-update", "freeze-rollout", "unfreeze-rollout"}

func TestC19(t *testing.T) {
	run := h.NewRun("C19", "model_checking")
	b := 2
	nodes := []string{"n1", "n2"}
	if h.Thorough() {
		b = 3
	}
	// reachable states: no canary / mid rolling update (S2), canary running / auto-paused (restart:2 > autoPause 1) / user-paused / failed (S3)
	cmds := &w.Alpha{Kubectl: allKubectl}
	canaryCmds := []string{"canary-pause", "canary-unpause", "canary-validate", "canary-fail"}
	// Templates "B": after a rollback the user may re-apply the template that just failed
	cmdsCanary := &w.Alpha{Kubectl: append(append([]string{}, canaryCmds...), "freeze-rollout", "pause-rolling-update"), PodDev: []string{"restart:2"}, Templates: []string{"B"},
		MidCmds: []string{"canary-fail", "canary-pause"}}
	cmdsLater := &w.Alpha{Kubectl: []string{"canary-validate", "canary-pause"}, Templates: []string{"C"}}
	if h.Thorough() {
		cmdsCanary = &w.Alpha{Kubectl: allKubectl, PodDev: []string{"restart:2"}, Templates: []string{"C"}, MidCmds: canaryCmds}
		cmdsLater = &w.Alpha{Kubectl: allKubectl, Templates: []string{"C"}}
	}
	s2 := corpusS2(nodes, "1", b, cmds)
	s3 := corpusS3(nodes, "1", "auto", b, cmdsCanary)
	s3m := corpusS3(nodes, "1", "manual", b, cmdsLater)
	// a canary that has already been paused and unpaused once, each time followed by a sync of both controllers (the
	// replica set carries a Canary-Paused condition that went True and back to False): commands must still be obeyed
	crs := canaryRSName("B")
	s3again := corpusS3(nodes, "1", "auto", b, &w.Alpha{Kubectl: canaryCmds})
	s3again.name = "S3-canary-after-pause-unpause"
	s3again.first = []w.Event{evb("setTemplate", edsKey, "B"), ev("R_eds", edsKey), ev("R_eds", edsKey), ev("R_ers", "ns/"+crs), ev("gone", "ns/"+canaryRSName("A")+"-n1"), ev("R_ers", "ns/"+crs), ev("ready", "ns/"+crs+"-n1"), ev("R_ers", "ns/"+crs),
		evb("kubectl", edsKey, "canary-pause"), ev("R_eds", edsKey), ev("R_ers", "ns/"+crs),
		evb("kubectl", edsKey, "canary-unpause"), ev("R_eds", edsKey), ev("R_ers", "ns/"+crs), ev("R_eds", edsKey)}
	// a replica set that was a failed canary, was validated all the same (it is active, its Canary-Failed condition went
	// back to False), was superseded by C and is the canary AGAIN because the user re-applied B while it still had pods
	s3back := corpusS3(nodes, "1", "auto", 1, &w.Alpha{Kubectl: []string{"canary-fail", "canary-pause"}})
	s3back.name = "S3-canary-again-after-fail-validate-supersede"
	s3back.first = nil
	s3back.prepare = func(t *testing.T, sc *w.Scenario, s0 *w.State) *w.State {
		do := func(s *w.State, e w.Event) *w.State {
			out := w.Step(t, sc, s, e)
			if out.CmdErr != nil {
				panic(fmt.Sprintf("prepare %s: %s failed: %v", sc.Name, e, out.CmdErr))
			}
			return out.Next
		}
		settle := func(s *w.State) *w.State {
			r := w.Closure(t, sc, s, w.ClosureOpts{SkipJumps: true, MaxStep: 10 * time.Second})
			if !r.Converged {
				panic("prepare " + sc.Name + ": " + r.Why)
			}
			return r.Final
		}
		s := settle(do(s0, evb("setTemplate", edsKey, "B")))                                            // canary B runs on one node
		s = do(do(s, evb("kubectl", edsKey, "canary-fail")), evb("kubectl", edsKey, "canary-validate")) // failed, validated at once
		s = settle(s)                                                                                   // B is active everywhere
		s = settle(do(s, evb("setTemplate", edsKey, "C")))                                              // canary C runs
		s = do(do(s, evb("kubectl", edsKey, "canary-validate")), ev("R_eds", edsKey))                   // C promoted, B still has pods
		s = do(do(s, evb("setTemplate", edsKey, "B")), ev("R_eds", edsKey))                             // B is the canary again
		return s
	}
	// the user asks for more canary nodes than there are nodes while the canary runs (from then on the node selection
	// reports a shortage at every reconcile) and pauses / unpauses the canary: the commands are accepted, so the state
	// has to follow
	s3over := corpusS3(nodes, "1", "auto", 2, &w.Alpha{Kubectl: []string{"canary-pause", "canary-unpause"}, SpecEdits: []string{"canary-replicas=3"}})
	s3over.name = "S3-canary-replicas-raised-beyond-the-nodes"
	// a canary that asks for more nodes than exist from its very start: status.canary is recorded with an empty node list
	// (and a shortage reported at every reconcile); it still is an active canary for every command
	s3none := corpusS3(nodes, "3", "auto", 1, &w.Alpha{Kubectl: []string{"freeze-rollout", "pause-rolling-update", "canary-pause", "canary-fail"}})
	s3none.name = "S3-canary-without-any-node"
	type st struct {
		sc *w.Scenario
		s  *w.State
	}
	var after []st
	perSc := map[string]int{} // closure starts kept per scenario (a single cap would be used up by the first scenario)
	seenSc := map[string]int{}
	k := 0
	runWorld(t, run, []scOpt{s2, s3, s3m, s3again, s3back, s3over, s3none}, []func(*w.MonCtx){w.MonC19, w.MonC14Status, w.MonC19Effects}, 0, func(sc *w.Scenario, s *w.State, d int) {
		if s.Mem["lastcmd"] != "" {
			k++
			seenSc[sc.Name]++
			// every state of the first 5000 of a scenario (small scenarios are covered completely), then every 4th
			if h.Thorough() || seenSc[sc.Name] <= 5000 || k%4 == 0 {
				if perSc[sc.Name] < 50000 {
					perSc[sc.Name]++
					after = append(after, st{sc, s})
				} else {
					run.Count("after_states_not_kept", 1)
				}
			}
		}
	})
	for _, c := range allKubectl {
		requireAntecedents(run, "C19/command-succeeded:"+c)
	}
	requireAntecedents(run, "C19/frozen-sync", "C19/paused-sync")
	requireAntecedents(run, "C19/command-overtook-reconcile:canary-fail", "C19/command-overtook-reconcile:canary-pause")
	// interpretation by the controller: run the fair closure (no validation by the driver) from states reached
	// after a successful command and look at the outcome
	parallel(len(after), func(i int) {
		a := after[i]
		parts := strings.SplitN(a.s.Mem["lastcmd"], "|", 2)
		cmd, canaryRS := parts[0], parts[1]
		e0 := a.s.EDS("ns", "foo")
		if e0 == nil {
			return
		}
		r := w.Closure(t, a.sc, a.s, w.ClosureOpts{SkipJumps: true, MaxStep: 10 * time.Second})
		run.Count("closures", 1)
		if !r.Converged {
			return // convergence is C02's business
		}
		e := r.Final.EDS("ns", "foo")
		viol := func(sig, msg string) {
			_, path := 0, ""
			run.Violate(h.Violation{Signature: sig, Monitor: "C19/interpretation", Message: msg, Replay: map[string]interface{}{"scenario": a.sc.Name, "state_after_command": a.s.Describe(), "final_state": r.Final.Describe(), "path": path}})
		}
		stillCanary := e.Status.Canary != nil && e.Status.Canary.ReplicaSet == canaryRS
		rs := r.Final.ERS("ns", canaryRS)
		failed := rs != nil && w.ERSCondTrue(rs, v1.ConditionTypeCanaryFailed)
		switch cmd {
		case "canary-pause":
			if stillCanary && !failed && w.AnnotTrue(e, "canary-paused") {
				run.Count("antecedent:C19/pause-interpreted", 1)
				if e.Status.State != v1.ExtendedDaemonSetStatusStateCanaryPaused {
					viol("C19/interpret: after canary pause the state is not Canary Paused", string(e.Status.State))
				}
			}
		case "canary-unpause":
			if stillCanary && !failed && w.AnnotTrue(e, "canary-unpaused") && len(canaryPods(r.Final, canaryRS)) > 0 {
				run.Count("antecedent:C19/unpause-interpreted", 1)
				if e.Status.State != v1.ExtendedDaemonSetStatusStateCanary {
					viol("C19/interpret: after canary unpause the state is not back to Canary", string(e.Status.State))
				}
			}
		case "canary-validate":
			// the replica set that was the canary when the command ran becomes active, unless it failed or the template moved on before
			if v, ok := w.Annot(e0, "canary-valid"); ok && v == canaryRS && w.UpToDateRS(a.s, e0) != nil && w.UpToDateRS(a.s, e0).Name == canaryRS {
				run.Count("antecedent:C19/validate-interpreted", 1)
				if e.Status.ActiveReplicaSet != canaryRS {
					viol("C19/interpret: after canary validate the validated replica set did not become active", fmt.Sprintf("active=%s validated=%s", e.Status.ActiveReplicaSet, canaryRS))
				}
			}
			// and never a later one by that annotation
			if up := w.UpToDateRS(r.Final, e); up != nil && e.Status.ActiveReplicaSet == up.Name && up.Name != canaryRS {
				if v, ok := w.Annot(e, "canary-valid"); ok && v == canaryRS && e.Spec.Strategy.Canary != nil {
					f := w.Promotion(e, up, w.Epoch.Add(r.Final.Now))
					if !f.Ended {
						viol("C19/interpret: a later template's replica set was promoted although only an earlier one was validated", fmt.Sprintf("active=%s validated=%s", up.Name, canaryRS))
					}
				}
			}
		case "canary-fail":
			if _, ok := w.Annot(e0, "canary-valid"); !ok && rs != nil {
				run.Count("antecedent:C19/fail-interpreted", 1)
				if e.Status.ActiveReplicaSet == canaryRS || e.Status.Canary != nil && e.Status.Canary.ReplicaSet == canaryRS {
					viol("C19/interpret: after canary fail the canary was not rolled back", fmt.Sprintf("active=%s canary=%v", e.Status.ActiveReplicaSet, e.Status.Canary))
				}
				// while the failed replica set is still there (marked failed), spec.template must not stay on its template
				if failed && w.TemplateHash(&e.Spec.Template) == rs.Spec.TemplateGeneration {
					viol("C19/interpret: after canary fail spec.template still is (or is again) the failed template at the fixpoint", w.TemplateTag(&e.Spec.Template))
				}
			}
		}
	})
	requireAntecedents(run, "C19/pause-interpreted", "C19/unpause-interpreted", "C19/validate-interpreted", "C19/fail-interpreted")
	run.Cov["evaluations"] = run.Counter("transitions") + run.Counter("closures")
	if n := run.Counter("after_states_not_kept"); n > 0 {
		run.NotExhaustive(fmt.Sprintf("%d states beyond the first 50000 of a scenario were not used as closure starts", n))
	}
	exit(run.Finish(fmt.Sprintf("BFS of a rolling update and of auto/manual canaries in which every sequence of up to %d kubectl-eds commands (all eight, real command bodies through the export shims) is interleaved with every order of reconciles, kubelet steps, restarts and a later template change; monitor C19 on every command (precondition, refusal leaves no trace, object diff limited to the documented annotation/condition) and the documented withholding of pause-rolling-update / freeze-rollout on every later sync of the active replica set; closures from the states after successful commands check the controller's interpretation; non-trivial = scenarios", b)))
}

// canaryRSName: canonical name the API layer gives the replica set of template tag in ns/foo.
func canaryRSName(tag string) string {
	tp := w.Tpl(tag)
	sum := md5.Sum([]byte("ns/" + w.TemplateHash(&tp)))
	return "foo-" + hex.EncodeToString(sum[:])[:6]
}

func canaryPods(s *w.State, rs string) []string {
	var out []string
	for _, p := range s.Pods() {
		if p.Labels[v1.ExtendedDaemonSetReplicaSetNameLabelKey] == rs && p.DeletionTimestamp == nil {
			out = append(out, p.Name)
		}
	}
	return out
}
