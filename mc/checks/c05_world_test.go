package checks

import (
	"testing"

	"verif/mc/h"
)

func c05World(t *testing.T, run *h.Run) (int64, int64) { return 0, 0 }
