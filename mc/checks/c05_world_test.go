package checks

import (
	"crypto/md5"
	"encoding/hex"
	v1 "github.com/DataDog/extendeddaemonset/api/v1alpha1"
	"testing"
	"time"

	"verif/mc/h"
	w "verif/mc/world"
)

// c05World: timed BFS of a canary around the end of its duration (20 s) and of the no-restart window (10 s):
// clock ticks of 5 and 10 s are always enabled, so the reconciles, a restart, pause/unpause/validate/fail and the
// failing replica-set sync happen in every order relative to the two thresholds; monitor = the promotion rule.
func c05World(t *testing.T, run *h.Run) (int64, int64) {
	horizon := 40 * time.Second
	budget := 1
	if h.Thorough() {
		horizon = 60 * time.Second
		budget = 2
	}
	// canonical names of the canary replica set and its pod (functions of namespace and template)
	tb := w.Tpl("B")
	sum := md5.Sum([]byte("ns/" + w.TemplateHash(&tb)))
	canaryRS := "foo-" + hex.EncodeToString(sum[:])[:6]
	canaryPod := "ns/" + canaryRS + "-n1"
	mk := func(name, mode string, dev *w.Alpha) scOpt {
		dev.FreeTicks = []int{10}
		dev.OnlyERS = []string{canaryRS} // the active replica set plays no part in the promotion decision
		d, nr := 20*time.Second, 10*time.Second
		if mode == "manual" {
			d, nr = 0, 0
		}
		return scOpt{name: name, nodes: []string{"n1", "n2"}, noFreq0: true,
			eds: []w.EDSOpt{w.WithFrequency(10 * time.Second), w.WithCanary("1", d, nr, mode), w.WithAuto(true, 1, true, 2)},
			// the exploration starts when the canary pod runs on its node
			first: []w.Event{evb("setTemplate", edsKey, "B"), ev("R_eds", edsKey), ev("R_eds", edsKey), ev("R_ers", "ns/"+canaryRS), ev("ready", canaryPod)},
			alpha: dev, budget: budget, mons: []func(*w.MonCtx){w.MonC05, w.MonC07}}
	}
	// autoFail.canaryTimeout (30 s) beyond the duration (20 s): a canary paused through the end of its duration fails by
	// timeout instead of being promoted; whatever the order, a failed canary is never promoted by time
	timeout := mk("S3-timed-auto-timeout", "auto", &w.Alpha{Kubectl: []string{"canary-pause", "canary-unpause"}, PodDev: []string{"restart:2"}})
	timeout.eds = append(timeout.eds, func(e *v1.ExtendedDaemonSet) { e.Spec.Strategy.Canary.AutoFail.CanaryTimeout = w.Dur(30 * time.Second) })
	scs := []scOpt{
		timeout,
		mk("S3-timed-auto-restart", "auto", &w.Alpha{PodDev: []string{"restart:1", "restart:3"}}),
		// a pod with two containers restarting at different moments: the last restart is the later one, whichever container
		func() scOpt {
			o := mk("S3-timed-auto-restart-two-containers", "auto", &w.Alpha{PodDev: []string{"restart@0:1", "restart@1:1"}})
			tb2 := w.Tpl("B+side")
			s2 := md5.Sum([]byte("ns/" + w.TemplateHash(&tb2)))
			crs2 := "foo-" + hex.EncodeToString(s2[:])[:6]
			o.tpls = []string{"A", "B+side"}
			o.alpha.OnlyERS = []string{crs2}
			o.first = []w.Event{evb("setTemplate", edsKey, "B+side"), ev("R_eds", edsKey), ev("R_eds", edsKey), ev("R_ers", "ns/"+crs2), ev("ready", "ns/"+crs2+"-n1")}
			o.budget = 2
			return o
		}(),
		// two canary nodes; the creation of the second canary pod is rejected in the very sync that sees the first one restart
		func() scOpt {
			o := mk("S3-timed-auto-restart-and-failing-create", "auto", &w.Alpha{PodDev: []string{"restart:1"}, ERSFaults: []string{"reject:n2"}})
			o.nodes = []string{"n1", "n2", "n3"}
			o.eds = []w.EDSOpt{w.WithFrequency(10 * time.Second), w.WithCanary("2", 20*time.Second, 10*time.Second, "auto"), w.WithAuto(true, 1, true, 2)}
			o.first = []w.Event{evb("setTemplate", edsKey, "B"), ev("R_eds", edsKey), ev("R_eds", edsKey), ev("R_ers", "ns/"+canaryRS), ev("gone", "ns/"+canaryRSName("A")+"-n1"), ev("ready", canaryPod)}
			o.budget = 2
			return o
		}(),
		mk("S3-timed-auto-commands", "auto", &w.Alpha{Kubectl: []string{"canary-pause", "canary-unpause", "canary-validate", "canary-fail"}}),
		mk("S3-timed-fail-overtakes", "auto", &w.Alpha{MidCmds: []string{"canary-fail"}}),
		// a failed canary whose rollback is interrupted between its two writes (the spec update is rejected or lost), or whose
		// template is re-applied afterwards: whatever the replica-set syncs do in between, it is not promoted by time
		func() scOpt {
			o := mk("S3-timed-fail-rollback-faults", "auto", &w.Alpha{Kubectl: []string{"canary-fail"}, Templates: []string{"B"},
				EDSFaults: []string{"reject:update ExtendedDaemonSet ns/foo$", "lost:update ExtendedDaemonSet ns/foo$"}})
			o.alpha.OnlyERS = nil // the former canary is reconciled in every role
			o.budget = 2
			return o
		}(),
		mk("S3-timed-manual", "manual", &w.Alpha{Kubectl: []string{"canary-validate", "canary-pause"}}),
	}
	var states, trans int64
	for _, o := range scs {
		setupRun = run
		sc := mkScenario(t, o)
		start := sc.Init[0].Now
		sc.Prune = func(s *w.State) bool { return s.Now > start+horizon }
		ex := explore(t, run, sc, 0)
		states += int64(ex.States)
		trans += ex.Transitions
		if run.HasUnknownViolation() {
			break
		}
	}
	requireAntecedents(run, "C05/active-changed", "C05/fail-overtook-reconcile", "C05/restart-recorded")
	return states, trans
}
