package checks

import (
	"fmt"
	"strings"
	"testing"
	"time"

	"verif/mc/h"
	w "verif/mc/world"
)

func TestSmoke(t *testing.T) {
	run := h.NewRun("SMOKE", "model_checking")
	alpha := &w.Alpha{}
	sc := &w.Scenario{Name: "S1-first-deploy", Tpls: w.TplMap("A", "B"), Enabled: alpha.Enabled}
	objs := w.Nodes("n1", "n2")
	objs = append(objs, w.NewEDS("ns", "foo", "A", w.WithFrequency(0)))
	sc.Init = []*w.State{w.NewState(0, objs...)}
	ex := &w.Explorer{T: t, Run: run, Sc: sc}
	t0 := time.Now()
	ex.Explore()
	fmt.Printf("S1: states=%d transitions=%d depth=%d selfchecks=%d in %v\n", ex.States, ex.Transitions, ex.Depth, ex.SelfChecks, time.Since(t0))
	r := w.Closure(t, sc, sc.Init[0], w.ClosureOpts{Trace: true})
	fmt.Println("closure converged:", r.Converged, r.Rounds, r.Why)
	fmt.Println(strings.Join(r.Final.Describe(), "\n"))
	// S2: rolling update with one template change at any time
	alpha2 := &w.Alpha{Templates: []string{"B"}}
	sc2 := &w.Scenario{Name: "S2", Tpls: w.TplMap("A", "B"), Enabled: alpha2.Enabled}
	st := w.Converge(t, sc2, sc.Init[0])
	st.Budget = 1
	st.Now = 0
	sc2.Init = []*w.State{st}
	ex2 := &w.Explorer{T: t, Run: run, Sc: sc2}
	t0 = time.Now()
	ex2.Explore()
	fmt.Printf("S2: states=%d transitions=%d depth=%d selfchecks=%d in %v\n", ex2.States, ex2.Transitions, ex2.Depth, ex2.SelfChecks, time.Since(t0))
}
