package checks

import (
	"fmt"
	"net/http/httptest"
	"regexp"
	"sort"
	"strings"
	"testing"

	edsmetrics "github.com/DataDog/extendeddaemonset/pkg/controller/metrics"
	"github.com/prometheus/common/expfmt"

	corev1 "k8s.io/api/core/v1"
	metav1 "k8s.io/apimachinery/pkg/apis/meta/v1"
	"k8s.io/apimachinery/pkg/types"
	ksmetric "k8s.io/kube-state-metrics/v2/pkg/metric"
	generator "k8s.io/kube-state-metrics/v2/pkg/metric_generator"

	v1 "github.com/DataDog/extendeddaemonset/api/v1alpha1"
	edsctrl "github.com/DataDog/extendeddaemonset/controllers/extendeddaemonset"
	ersctrl "github.com/DataDog/extendeddaemonset/controllers/extendeddaemonsetreplicaset"
	"github.com/DataDog/extendeddaemonset/pkg/controller/utils"

	"verif/mc/h"
)

var promChars = regexp.MustCompile(`^[a-zA-Z_][a-zA-Z0-9_]*$`)
var nonProm = regexp.MustCompile(`[^a-zA-Z0-9_]`)

// refSanitise: characters outside [a-zA-Z0-9_] become '_'; a name that would start with a digit gets a leading '_'
// (a Prometheus label name matches [a-zA-Z_][a-zA-Z0-9_]*).
func refSanitise(k string) string {
	s := nonProm.ReplaceAllString(k, "_")
	if s != "" && s[0] >= '0' && s[0] <= '9' {
		s = "_" + s
	}
	return s
}

func pairsOf(keys, vals []string) []string {
	out := []string{}
	for i := range keys {
		v := "<missing>"
		if i < len(vals) {
			v = vals[i]
		}
		out = append(out, keys[i]+"="+v)
	}
	sort.Strings(out)
	return out
}

func famByName(fams []generator.FamilyGenerator, obj interface{}) map[string]*ksmetric.Family {
	m := map[string]*ksmetric.Family{}
	for _, f := range fams {
		m[f.Name] = f.GenerateFunc(obj)
	}
	return m
}

// TestC20: every label map of the lattice x every status of the lattice through the real metric
// family generators (shim) and BuildInfoLabels, compared with the reference pairing.
// c20Endpoint: the series as a scraper gets them - the real /ksmetrics handler over one store per resource kind, fed with
// every population of 0..2 ExtendedDaemonSets x 0..2 replica sets; the served text must parse, and every object's gauges
// must be there with the numbers of its status.
func c20Endpoint(run *h.Run) {
	mkEDS := func(i int) *v1.ExtendedDaemonSet {
		e := &v1.ExtendedDaemonSet{ObjectMeta: metav1.ObjectMeta{Namespace: "ns", Name: fmt.Sprintf("eds%d", i), UID: types.UID(fmt.Sprintf("uid-eds%d", i)), Labels: map[string]string{"app": "x"}}}
		e.Status = v1.ExtendedDaemonSetStatus{Desired: int32(3 + i), Current: int32(2 + i), Ready: int32(1 + i), Available: int32(i), UpToDate: int32(i), State: v1.ExtendedDaemonSetStatusStateRunning}
		return e
	}
	mkERS := func(i int) *v1.ExtendedDaemonSetReplicaSet {
		r := &v1.ExtendedDaemonSetReplicaSet{ObjectMeta: metav1.ObjectMeta{Namespace: "ns", Name: fmt.Sprintf("ers%d", i), UID: types.UID(fmt.Sprintf("uid-ers%d", i)), Labels: map[string]string{"app": "x"}}}
		r.Status = v1.ExtendedDaemonSetReplicaSetStatus{Desired: int32(5 + i), Current: int32(4 + i), Ready: int32(3 + i), Available: int32(2 + i)}
		return r
	}
	for nE := 0; nE <= 2; nE++ {
		for nR := 0; nR <= 2; nR++ {
			func() {
				rep := map[string]interface{}{"level": "/ksmetrics handler", "extendeddaemonsets": nE, "replicasets": nR}
				defer func() {
					if p := recover(); p != nil {
						run.Violate(h.Violation{Signature: "C20/endpoint: serving /ksmetrics panics", Monitor: "C20/endpoint", Message: fmt.Sprint(p), Rank: int64(nE*3 + nR), Replay: rep})
					}
				}()
				// two watched namespaces: two stores per kind would be registered; here two for the ExtendedDaemonSets
				handler, stores := edsmetrics.VerifKsmHandler(edsctrl.VerifMetricFamilies(), edsctrl.VerifMetricFamilies(), ersctrl.VerifMetricFamilies())
				for i := 0; i < nE; i++ {
					if err := stores[i%2].Add(mkEDS(i)); err != nil {
						panic(err)
					}
				}
				for i := 0; i < nR; i++ {
					if err := stores[2].Add(mkERS(i)); err != nil {
						panic(err)
					}
				}
				rec := httptest.NewRecorder()
				handler.ServeHTTP(rec, httptest.NewRequest("GET", "/ksmetrics", nil))
				run.Count("endpoint_scrapes", 1)
				var parser expfmt.TextParser
				fams, err := parser.TextToMetricFamilies(strings.NewReader(rec.Body.String()))
				if err != nil {
					run.Violate(h.Violation{Signature: "C20/endpoint: the text served by /ksmetrics is not a valid exposition", Monitor: "C20/endpoint", Message: err.Error(), Rank: int64(nE*3 + nR), Replay: rep})
					return
				}
				want := map[string]float64{}
				for i := 0; i < nE; i++ {
					e := mkEDS(i)
					want["eds_status_desired|"+e.Name], want["eds_status_current|"+e.Name], want["eds_status_ready|"+e.Name], want["eds_status_available|"+e.Name] = float64(e.Status.Desired), float64(e.Status.Current), float64(e.Status.Ready), float64(e.Status.Available)
				}
				for i := 0; i < nR; i++ {
					r := mkERS(i)
					want["ers_status_desired|"+r.Name], want["ers_status_current|"+r.Name], want["ers_status_ready|"+r.Name], want["ers_status_available|"+r.Name] = float64(r.Status.Desired), float64(r.Status.Current), float64(r.Status.Ready), float64(r.Status.Available)
				}
				got := map[string]float64{}
				for name, mf := range fams {
					for _, m := range mf.Metric {
						obj := ""
						for _, lp := range m.Label {
							if lp.GetName() == "name" {
								obj = lp.GetValue()
							}
						}
						if m.Gauge != nil {
							got[name+"|"+obj] = m.Gauge.GetValue()
						} else if m.Untyped != nil {
							got[name+"|"+obj] = m.Untyped.GetValue()
						}
					}
				}
				for k, v := range want {
					g, ok := got[k]
					if !ok || g != v {
						run.Violate(h.Violation{Signature: "C20/endpoint: a series of an object is missing from /ksmetrics or does not carry its status field", Monitor: "C20/endpoint",
							Message: fmt.Sprintf("%s: got %v (present=%v), want %v", k, g, ok, v), Rank: int64(nE*3 + nR), Replay: rep})
						return
					}
				}
				run.Nontrivial(fmt.Sprintf("endpoint:%d/%d", nE, nR))
			}()
		}
	}
}

func TestC20(t *testing.T) {
	run := h.NewRun("C20", "model_checking")
	// keys changed by sanitising, keys colliding after sanitising, and keys whose relative ORDER changes under
	// sanitising ('-', '.', '/' sort before digits and upper case, their replacement '_' sorts after them)
	alphabet := []string{"foo", "a.b", "a_b", "a-b", "a/b", "a2", "aB", "app.kubernetes.io/name", v1.ExtendedDaemonSetNameLabelKey, "9x"}
	maxKeys := 4
	if h.Thorough() {
		maxKeys = len(alphabet)
	}
	counters := []int32{0, 1, 7}
	var labelMaps []map[string]string
	for mask := 0; mask < 1<<len(alphabet); mask++ {
		m := map[string]string{}
		for i, k := range alphabet {
			if mask&(1<<i) != 0 {
				m[k] = fmt.Sprintf("v%d", i)
			}
		}
		if len(m) <= maxKeys {
			labelMaps = append(labelMaps, m)
		}
	}
	labelMaps = append(labelMaps, nil)
	states := 0
	checkLabels := func(kind string, meta *metav1.ObjectMeta, fam *ksmetric.Family) {
		want := []string{"namespace=" + meta.Namespace, "name=" + meta.Name}
		for k, v := range meta.Labels {
			want = append(want, refSanitise(k)+"="+v)
		}
		sort.Strings(want)
		for _, m := range fam.Metrics {
			got := pairsOf(m.LabelKeys, m.LabelValues)
			for _, k := range m.LabelKeys {
				if !promChars.MatchString(k) {
					run.Violate(h.Violation{Signature: "C20/labels: emitted label name is not a legal Prometheus label name ([a-zA-Z_][a-zA-Z0-9_]*)",
						Monitor: "C20/labels", Message: fmt.Sprintf("%s key %q", kind, k), Replay: meta.Labels})
				}
			}
			if len(m.LabelKeys) != len(m.LabelValues) || strings.Join(got, ",") != strings.Join(want, ",") {
				changed := []string{}
				for k := range meta.Labels {
					if refSanitise(k) != k {
						changed = append(changed, k)
					}
				}
				class := "key unchanged by sanitising"
				if len(changed) > 0 {
					class = "key changed by sanitising"
				}
				run.Violate(h.Violation{Signature: "C20/labels: value not paired with its key; " + class,
					Monitor: "C20/labels", Message: fmt.Sprintf("%s labels=%v emitted=%v want=%v", kind, meta.Labels, got, want),
					Replay: map[string]interface{}{"kind": kind, "labels": meta.Labels}})
			}
			if m.Value != 1 {
				run.Violate(h.Violation{Signature: "C20/labels: info series value != 1", Monitor: "C20/labels", Message: kind})
			}
		}
	}
	gauge := func(kind, name string, fams map[string]*ksmetric.Family, want float64, ctx interface{}) {
		f := fams[name]
		if f == nil || len(f.Metrics) != 1 || f.Metrics[0].Value != want {
			got := "absent"
			if f != nil && len(f.Metrics) == 1 {
				got = fmt.Sprint(f.Metrics[0].Value)
			}
			run.Violate(h.Violation{Signature: "C20/gauge: " + name + " differs from the status field", Monitor: "C20/gauge",
				Message: fmt.Sprintf("%s %s got %s want %v", kind, name, got, want), Replay: ctx})
		}
	}
	// labelIs: a series' label carries the value of the thing its key names (not a neighbouring label's value)
	labelIs := func(kind, name string, fams map[string]*ksmetric.Family, key, want string, ctx interface{}) {
		f := fams[name]
		if f == nil || len(f.Metrics) != 1 {
			return
		}
		m := f.Metrics[0]
		got, found := "", false
		for i, k := range m.LabelKeys {
			if k == key && i < len(m.LabelValues) {
				got, found = m.LabelValues[i], true
			}
		}
		if !found || got != want || len(m.LabelKeys) != len(m.LabelValues) {
			run.Violate(h.Violation{Signature: "C20/series-labels: a label of " + name + " does not carry the value its key names", Monitor: "C20/gauge",
				Message: fmt.Sprintf("%s %s: %s=%q (present=%v), want %q; keys=%v values=%v", kind, name, key, got, found, want, m.LabelKeys, m.LabelValues), Replay: ctx})
		}
	}
	b2f := func(b bool) float64 {
		if b {
			return 1
		}
		return 0
	}
	edsStates := []v1.ExtendedDaemonSetStatusState{v1.ExtendedDaemonSetStatusStateRunning, v1.ExtendedDaemonSetStatusStateRollingUpdatePaused,
		v1.ExtendedDaemonSetStatusStateRolloutFrozen, v1.ExtendedDaemonSetStatusStateCanary, v1.ExtendedDaemonSetStatusStateCanaryPaused, ""}
	edsFams := edsctrl.VerifMetricFamilies()
	ersFams := ersctrl.VerifMetricFamilies()
	for li, lm := range labelMaps {
		// BuildInfoLabels directly
		meta := metav1.ObjectMeta{Namespace: "ns", Name: "obj", Labels: lm}
		keys, vals := utils.BuildInfoLabels(&meta)
		checkLabels("BuildInfoLabels", &meta, &ksmetric.Family{Metrics: []*ksmetric.Metric{{Value: 1,
			LabelKeys: append([]string{"namespace", "name"}, keys...), LabelValues: append([]string{"ns", "obj"}, vals...)}}})
		nChanged := 0
		for k := range lm {
			if refSanitise(k) != k {
				nChanged++
			}
		}
		run.Nontrivial(fmt.Sprintf("labels:n=%d changed=%d", len(lm), nChanged))
		// the full status lattice only for a few label maps (status and labels are independent series)
		cs := counters
		if li%16 != 0 && !h.Thorough() {
			cs = []int32{1}
		}
		for _, d := range cs {
			for _, c := range cs {
				for _, r := range cs {
					for _, a := range cs {
						for _, u := range cs {
							for ci, canary := range []*v1.ExtendedDaemonSetStatusCanary{nil, {ReplicaSet: "rs-b", Nodes: []string{"n1", "n2"}}, {ReplicaSet: "rs-b"}} {
								for _, pausedCond := range []string{"absent", "True", "False"} {
									for _, st := range edsStates {
										states++
										eds := &v1.ExtendedDaemonSet{ObjectMeta: metav1.ObjectMeta{Namespace: "ns", Name: "foo", Labels: lm,
											CreationTimestamp: metav1.Unix(1000+int64(d), 0)}}
										eds.Status = v1.ExtendedDaemonSetStatus{Desired: d, Current: c, Ready: r, Available: a, UpToDate: u,
											IgnoredUnresponsiveNodes: d, State: st, Canary: canary}
										if pausedCond != "absent" {
											eds.Status.Conditions = []v1.ExtendedDaemonSetCondition{{Type: v1.ConditionTypeEDSCanaryPaused,
												Status: corev1.ConditionStatus(pausedCond), Reason: "CrashLoopBackOff"}}
										}
										f := famByName(edsFams, eds)
										ctx := map[string]interface{}{"status": eds.Status}
										checkLabels("EDS", &eds.ObjectMeta, f["eds_labels"])
										gauge("EDS", "eds_status_desired", f, float64(d), ctx)
										gauge("EDS", "eds_status_current", f, float64(c), ctx)
										gauge("EDS", "eds_status_ready", f, float64(r), ctx)
										gauge("EDS", "eds_status_available", f, float64(a), ctx)
										gauge("EDS", "eds_status_uptodate", f, float64(u), ctx)
										gauge("EDS", "eds_status_ignored_unresponsive_nodes", f, float64(d), ctx)
										gauge("EDS", "eds_created", f, float64(1000+int64(d)), ctx)
										gauge("EDS", "eds_status_canary_activated", f, b2f(canary != nil), ctx)
										nn := 0
										if canary != nil {
											nn = len(canary.Nodes)
										}
										gauge("EDS", "eds_status_canary_node_number", f, float64(nn), ctx)
										gauge("EDS", "eds_status_canary_paused", f, b2f(canary != nil && pausedCond == "True"), ctx)
										for _, fam := range []string{"eds_status_desired", "eds_status_canary_paused", "eds_status_canary_activated", "eds_created"} {
											labelIs("EDS", fam, f, "namespace", "ns", ctx)
											labelIs("EDS", fam, f, "name", "foo", ctx)
										}
										if canary != nil {
											labelIs("EDS", "eds_status_canary_paused", f, "replicaset", canary.ReplicaSet, ctx)
											if pausedCond == "True" {
												labelIs("EDS", "eds_status_canary_paused", f, "paused_reason", "CrashLoopBackOff", ctx)
											}
										}
										gauge("EDS", "eds_status_rolling_update_paused", f, b2f(st == v1.ExtendedDaemonSetStatusStateRollingUpdatePaused), ctx)
										gauge("EDS", "eds_status_rollout_frozen", f, b2f(st == v1.ExtendedDaemonSetStatusStateRolloutFrozen), ctx)
										run.Nontrivial(fmt.Sprintf("eds:%d%d%d%d%d c%d %s %s", d, c, r, a, u, ci, pausedCond, st))
									}
								}
							}
							for _, failed := range []string{"absent", "True", "False"} {
								states++
								ers := &v1.ExtendedDaemonSetReplicaSet{ObjectMeta: metav1.ObjectMeta{Namespace: "ns", Name: "foo-x", Labels: lm,
									CreationTimestamp: metav1.Unix(2000+int64(u), 0)}}
								ers.Status = v1.ExtendedDaemonSetReplicaSetStatus{Desired: d, Current: c, Ready: r, Available: a, IgnoredUnresponsiveNodes: u}
								if failed != "absent" {
									ers.Status.Conditions = []v1.ExtendedDaemonSetReplicaSetCondition{{Type: v1.ConditionTypeCanaryFailed, Status: corev1.ConditionStatus(failed)}}
								}
								f := famByName(ersFams, ers)
								ctx := map[string]interface{}{"status": ers.Status}
								checkLabels("ERS", &ers.ObjectMeta, f["ers_labels"])
								gauge("ERS", "ers_status_desired", f, float64(d), ctx)
								gauge("ERS", "ers_status_current", f, float64(c), ctx)
								gauge("ERS", "ers_status_ready", f, float64(r), ctx)
								gauge("ERS", "ers_status_available", f, float64(a), ctx)
								gauge("ERS", "ers_status_ignored_unresponsive_nodes", f, float64(u), ctx)
								gauge("ERS", "ers_created", f, float64(2000+int64(u)), ctx)
								gauge("ERS", "ers_status_canary_failed", f, b2f(failed == "True"), ctx)
								run.Nontrivial(fmt.Sprintf("ers:%d%d%d%d%d %s", d, c, r, a, u, failed))
							}
						}
					}
				}
			}
		}
		if li < 3 {
			run.Sample(map[string]interface{}{"labels": lm, "BuildInfoLabels": pairsOf(keys, vals)})
		}
	}
	run.Cov["states"] = states
	run.Cov["transitions"] = states * (len(edsFams) + len(ersFams)) / 2
	run.Cov["traces_validated_against_impl"] = states
	run.Cov["evaluations"] = states
	run.Cov["label_maps"] = len(labelMaps)
	run.Assumptions = []string{"metric families are pure functions of one object (read from the generator code)",
		"a key whose sanitised form would start with a digit is expected with a leading underscore"}
	c20Endpoint(run)
	exit(run.Finish("the real /ksmetrics handler over every population of 0..2 ExtendedDaemonSets x 0..2 replica sets (served text parsed back); lattice: every subset (<=4 quick / all thorough) of 7 label keys incl. keys changed by sanitising and colliding keys, x status counters {0,1,7}^5 x canary/condition/state variants, through the real generators; a case is distinct by (label-map shape | status tuple)"))
}
