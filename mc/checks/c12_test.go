package checks

import (
	"testing"

	appsv1 "k8s.io/api/apps/v1"
	corev1 "k8s.io/api/core/v1"
	metav1 "k8s.io/apimachinery/pkg/apis/meta/v1"
	"sigs.k8s.io/controller-runtime/pkg/client"

	v1 "github.com/DataDog/extendeddaemonset/api/v1alpha1"

	"verif/mc/h"
	w "verif/mc/world"
)

func strayPod(ns, name, node string, labels map[string]string, owner string) *corev1.Pod {
	p := &corev1.Pod{ObjectMeta: metav1.ObjectMeta{Namespace: ns, Name: name, Labels: labels, Finalizers: []string{w.PodFinalizer}, CreationTimestamp: metav1.NewTime(w.Epoch)},
		Spec:   corev1.PodSpec{NodeName: node, Containers: []corev1.Container{{Name: "main", Image: "other"}}},
		Status: corev1.PodStatus{Phase: corev1.PodRunning, Conditions: []corev1.PodCondition{{Type: corev1.PodReady, Status: corev1.ConditionTrue}}}}
	if owner != "" {
		t := true
		p.OwnerReferences = []metav1.OwnerReference{{APIVersion: "apps/v1", Kind: "DaemonSet", Name: owner, Controller: &t}}
	}
	return p
}

func ownedByKind(p *corev1.Pod, kind, name string) *corev1.Pod {
	t := true
	p.OwnerReferences = []metav1.OwnerReference{{APIVersion: "apps/v1", Kind: kind, Name: name, Controller: &t}}
	return p
}

func oldDS(ns, name string, sel map[string]string) *appsv1.DaemonSet {
	return &appsv1.DaemonSet{ObjectMeta: metav1.ObjectMeta{Namespace: ns, Name: name},
		Spec: appsv1.DaemonSetSpec{Selector: &metav1.LabelSelector{MatchLabels: sel}}}
}

const longName = "a-name-of-exactly-sixty-four-characters-that-no-label-value-holds"

func TestC12(t *testing.T) {
	run := h.NewRun("C12", "model_checking")
	b := 0
	nodes := []string{"n1"}
	if h.Thorough() {
		b = 1
		nodes = []string{"n1", "n2"}
	}
	dev := func() *w.Alpha {
		return &w.Alpha{Templates: []string{"A", "B"}, Kubectl: []string{"canary-validate"}}
	}
	canary := []w.EDSOpt{w.WithCanary("1", 600e9, 0, "auto")}
	both := func(other string) []w.Event {
		return []w.Event{evb("setTemplate", edsKey, "B"), evb("setTemplate", other, "B")}
	}
	scs := []scOpt{
		// same name in two namespaces, both rolling out
		{name: "S6-same-name-two-namespaces", nodes: nodes, extra: []client.Object{w.NewEDS("other", "foo", "A", w.WithFrequency(0))},
			first: both("other/foo"), alpha: dev(), budget: b},
		// different names in one namespace + unrelated pods carrying the other's label / no label
		{name: "S6-two-names-one-namespace", nodes: nodes, extra: []client.Object{w.NewEDS("ns", "bar", "A", w.WithFrequency(0)),
			strayPod("ns", "stray-nolabel", "n1", map[string]string{"app": "agent"}, ""),
			strayPod("other", "stray-foo-label", "n1", map[string]string{v1.ExtendedDaemonSetNameLabelKey: "foo"}, "")},
			first: both("ns/bar"), alpha: dev(), budget: b},
		// canary on one, rollout on the other namespace's namesake
		{name: "S6-canary-and-namesake", nodes: []string{"n1", "n2"}, eds: canary, extra: []client.Object{w.NewEDS("other", "foo", "A", w.WithFrequency(0))},
			first: both("other/foo")[:1], alpha: dev(), budget: b},
		// a canary of one ExtendedDaemonSet next to a rollout of another one in the SAME namespace (canary labels, clean-up window)
		{name: "S6-canary-and-neighbour-same-namespace", nodes: []string{"n1", "n2"}, eds: canary, extra: []client.Object{w.NewEDS("ns", "bar", "A", w.WithFrequency(0))},
			first: both("ns/bar"), alpha: &w.Alpha{Kubectl: []string{"canary-validate"}}, budget: b},
		// a legal but misleading template: the pod template of ns/foo carries the name label of its neighbour ns/bar
		// (e.g. copied from one of bar's pods)
		{name: "S6-template-carries-neighbours-label", nodes: nodes, extra: []client.Object{w.NewEDS("ns", "bar", "A", w.WithFrequency(0))},
			tpls:  []string{"A", "B", "B+label:" + v1.ExtendedDaemonSetNameLabelKey + "=bar"},
			first: []w.Event{evb("setTemplate", edsKey, "B+label:"+v1.ExtendedDaemonSetNameLabelKey+"=bar"), evb("setTemplate", "ns/bar", "B")}, alpha: dev(), budget: b},
		// PodTemplate objects of namesakes
		{name: "S6-podtemplates", nodes: []string{"n1"}, extra: []client.Object{w.NewEDS("other", "foo", "A", w.WithFrequency(0))},
			first: both("other/foo")[:1], alpha: &w.Alpha{PT: true}, budget: 0},
		// migration from an apps/v1 DaemonSet whose selector also matches pods of another namespace and unowned pods
		{name: "S6-migration", nodes: []string{"n1", "n2"}, eds: []w.EDSOpt{w.WithAnnotation(v1.ExtendedDaemonSetOldDaemonsetAnnotationKey, "old")},
			extra: []client.Object{oldDS("ns", "old", map[string]string{"app": "agent"}),
				strayPod("ns", "old-n1", "n1", map[string]string{"app": "agent"}, "old"),
				strayPod("ns", "unowned-n2", "n2", map[string]string{"app": "agent"}, ""),
				strayPod("other", "old-n2", "n2", map[string]string{"app": "agent"}, "old"),
				// a pod of a StatefulSet that happens to carry the DaemonSet's name and labels: not the DaemonSet's pod
				ownedByKind(strayPod("ns", "old-0", "n1", map[string]string{"app": "agent"}, ""), "StatefulSet", "old")},
			raw: true, alpha: &w.Alpha{}, budget: 0},
		// the same with an old pod on every node (the migration takes several syncs) next to unowned pods matching the selector
		{name: "S6-migration-two-old-pods", nodes: []string{"n1", "n2"}, eds: []w.EDSOpt{w.WithAnnotation(v1.ExtendedDaemonSetOldDaemonsetAnnotationKey, "old"), w.WithRolling("1", "", 0, 0)},
			extra: []client.Object{oldDS("ns", "old", map[string]string{"app": "agent"}),
				strayPod("ns", "old-n1", "n1", map[string]string{"app": "agent"}, "old"),
				strayPod("ns", "old-n2", "n2", map[string]string{"app": "agent"}, "old"),
				strayPod("ns", "unowned-n1", "n1", map[string]string{"app": "agent"}, ""),
				strayPod("ns", "unowned-n2", "n2", map[string]string{"app": "agent"}, "")},
			raw: true, alpha: &w.Alpha{}, budget: 0},
		// a neighbour whose name is longer than a label value may be (more than 63 characters): whatever becomes of its own replica
		// sets, it must not see those of ns/foo
		{name: "S6-neighbour-with-a-name-over-63-characters", nodes: nodes, extra: []client.Object{w.NewEDS("ns", longName, "A", w.WithFrequency(0))},
			first: both("ns/" + longName), alpha: dev(), budget: b},
		// an ExtendedDaemonSet object that itself carries its neighbour's identity label in metadata.labels (a manifest
		// derived from an exported object, a common-labels overlay): legal, and it must change nothing
		{name: "S6-object-carries-neighbours-name-label", nodes: nodes,
			eds: []w.EDSOpt{func(e *v1.ExtendedDaemonSet) {
				e.Labels = map[string]string{v1.ExtendedDaemonSetNameLabelKey: "bar", "team": "x"}
			}},
			extra: []client.Object{w.NewEDS("ns", "bar", "A", w.WithFrequency(0))}, raw: true,
			first: nil, alpha: &w.Alpha{Templates: []string{"B"}}, budget: b},
		// the user ends the declared migration (removes the annotation) while pods of the old DaemonSet still run: from
		// then on they are unrelated pods
		{name: "S6-migration-called-off", nodes: []string{"n1", "n2"}, eds: []w.EDSOpt{w.WithAnnotation(v1.ExtendedDaemonSetOldDaemonsetAnnotationKey, "old"), w.WithRolling("1", "", 0, 0)},
			extra: []client.Object{oldDS("ns", "old", map[string]string{"app": "agent"}),
				strayPod("ns", "old-n1", "n1", map[string]string{"app": "agent"}, "old"),
				strayPod("ns", "old-n2", "n2", map[string]string{"app": "agent"}, "old")},
			raw: true, alpha: &w.Alpha{Annots: []string{"old-daemonset-"}}, budget: 1},
	}
	// the user quarantines a canary pod (removes the ExtendedDaemonSet's name label so that its controller lets go of it)
	// and validates the canary: from the removal on the pod is an unrelated pod
	scs = append(scs, scOpt{name: "S6-quarantined-canary-pod", nodes: []string{"n1", "n2"}, eds: []w.EDSOpt{w.WithCanary("1", 0, 0, "manual")},
		first: []w.Event{evb("setTemplate", edsKey, "B")}, alpha: &w.Alpha{PodDev: []string{"quarantine"}, Kubectl: []string{"canary-validate"}}, budget: 2})
	// a pod template whose own metadata names another namespace (a manifest of elsewhere/foo re-applied in ns): the pods
	// belong in the ExtendedDaemonSet's namespace, and the namesake over there must not see any of them
	scs = append(scs, scOpt{name: "S6-template-names-another-namespace", nodes: []string{"n1"}, tpl0: "A+metans", tpls: []string{"A+metans", "B+metans"},
		extra: []client.Object{w.NewEDS("elsewhere", "foo", "A", w.WithFrequency(0))}, raw: true,
		first: nil, alpha: &w.Alpha{Templates: []string{"B+metans"}}, budget: b})
	runWorld(t, run, scs, []func(*w.MonCtx){w.MonC12}, 0)
	requireAntecedents(run, "C12/write")
	exit(run.Finish("BFS over all interleavings of the reconciles of two ExtendedDaemonSets (same name in two namespaces / two names in one namespace / canary + namesake / DaemonSet migration with overlapping selectors) with template changes and validation as deviations; every write is checked against the ownership reference; non-trivial = scenarios"))
}
