package checks

import (
	"fmt"
	"sync"
	"sync/atomic"
	"testing"

	"sigs.k8s.io/controller-runtime/pkg/client"

	"verif/mc/h"
	w "verif/mc/world"
)

// scOpt describes a scenario: a cluster converged on template "A", then the defining first events.
type scOpt struct {
	name    string
	nodes   []string // "n1", "n2:k=a"
	eds     []w.EDSOpt
	extra   []client.Object // further objects of the initial store
	cfg     w.Config
	first   []w.Event // applied after convergence, before the exploration starts (not charged to the budget)
	alpha   *w.Alpha
	budget  int
	tpls    []string
	raw     bool // do not converge first (first deployment scenarios)
	mons    []func(*w.MonCtx)
	noFreq0 bool // keep the default reconcileFrequency (timed scenarios)
}

func mkScenario(t *testing.T, o scOpt) *w.Scenario {
	if o.tpls == nil {
		o.tpls = []string{"A", "B", "C"}
	}
	sc := &w.Scenario{Name: o.name, Cfg: o.cfg, Tpls: w.TplMap(o.tpls...), Enabled: o.alpha.Enabled, Monitors: o.mons}
	objs := w.Nodes(o.nodes...)
	opts := o.eds
	if !o.noFreq0 {
		opts = append([]w.EDSOpt{w.WithFrequency(0)}, opts...)
	}
	objs = append(objs, w.NewEDS("ns", "foo", "A", opts...))
	objs = append(objs, o.extra...)
	st := w.NewState(0, objs...)
	if !o.raw {
		st = w.Converge(t, sc, st)
	}
	for _, ev := range o.first {
		out := w.Step(t, sc, st, ev)
		if out.CmdErr != nil {
			panic(fmt.Sprintf("scenario %s: first event %s failed: %v", o.name, ev, out.CmdErr))
		}
		st = out.Next
	}
	st.Budget = o.budget
	sc.Init = []*w.State{st}
	return sc
}

// explore runs one scenario and accumulates coverage numbers in run.
func explore(t *testing.T, run *h.Run, sc *w.Scenario, maxStates int) *w.Explorer {
	if maxStates == 0 {
		maxStates = 2500000
	}
	ex := &w.Explorer{T: t, Run: run, Sc: sc, MaxStates: maxStates}
	ex.Explore()
	fmt.Printf("  %-28s states=%-7d transitions=%-8d depth=%-3d capped=%v\n", sc.Name, ex.States, ex.Transitions, ex.Depth, ex.Capped)
	run.Nontrivial("scenario:" + sc.Name)
	return ex
}

// worldFinish fills the model-checking coverage keys from the counters.
func worldFinish(run *h.Run) {
	run.Cov["states"] = run.Counter("states")
	run.Cov["transitions"] = run.Counter("transitions")
	run.Cov["traces_validated_against_impl"] = run.Counter("traces_validated_against_impl")
	if _, ok := run.Cov["evaluations"]; !ok {
		run.Cov["evaluations"] = run.Counter("transitions")
	}
}

func ev(k, a string) w.Event             { return w.Event{K: k, A: a} }
func evb(k, a, b string) w.Event         { return w.Event{K: k, A: a, B: b} }

// runWorld explores the scenarios with the monitors; stops at the first scenario with an unlisted violation.
func runWorld(t *testing.T, run *h.Run, scs []scOpt, mons []func(*w.MonCtx), maxStates int, visit ...func(sc *w.Scenario, s *w.State, depth int)) {
	// replay mode: re-execute one recorded trace sequentially with the monitors, without the explorer
	if rp := replayFile(); rp != nil {
		var x struct {
			Scenario string    `json:"scenario"`
			Init     int       `json:"init"`
			Events   []w.Event `json:"events"`
		}
		rp.decode(&x)
		if len(x.Events) > 0 {
			for _, o := range scs {
				if o.name == x.Scenario {
					o.mons = mons
					sc := mkScenario(t, o)
					final := w.ReplayPath(t, run, sc, x.Init, x.Events)
					fmt.Println("replayed", len(x.Events), "events; final state:")
					for _, l := range final.Describe() {
						fmt.Println("  " + l)
					}
					run.Cov["evaluations"] = len(x.Events)
					run.Count("states", int64(len(x.Events)))
					run.Count("transitions", int64(len(x.Events)))
					exit(run.Finish("replay of one recorded trace"))
				}
			}
			fmt.Println("replay: scenario", x.Scenario, "is not part of this check")
			exit(2)
		}
	}
	for _, o := range scs {
		o.mons = mons
		sc := mkScenario(t, o)
		if maxStates == 0 {
			maxStates = 2500000 // memory safety cap per scenario; hitting it is reported as exhaustive:false
		}
		ex := &w.Explorer{T: t, Run: run, Sc: sc, MaxStates: maxStates}
		if len(visit) > 0 {
			ex.Visit = func(s *w.State, d int) { visit[0](sc, s, d) }
		}
		ex.Explore()
		fmt.Printf("  %-28s states=%-7d transitions=%-8d depth=%-3d capped=%v\n", sc.Name, ex.States, ex.Transitions, ex.Depth, ex.Capped)
		run.Nontrivial("scenario:" + sc.Name)
		confirmByReplay(t, run, sc)
		if run.HasUnknownViolation() {
			break
		}
	}
	worldFinish(run)
}

// confirmByReplay re-executes the trace of every violation of this scenario three times from scratch; a violation
// that does not reproduce with the same signature every time is a harness error (exit 2), never a verdict.
func confirmByReplay(t *testing.T, run *h.Run, sc *w.Scenario) {
	for _, v := range run.Violations() {
		rep, ok := v.Replay.(map[string]interface{})
		if !ok || rep["scenario"] != sc.Name {
			continue
		}
		evs, ok := rep["events"].([]w.Event)
		if !ok {
			continue
		}
		init, _ := rep["init"].(int)
		for i := 0; i < 3; i++ {
			scratch := h.NewRun(run.Property, "model_checking")
			w.ReplayPath(t, scratch, sc, init, evs)
			if !scratch.Has(v.Signature) {
				fmt.Printf("HARNESS ERROR: violation %q did not reproduce when its trace was replayed (attempt %d)\n", v.Signature, i+1)
				exit(2)
			}
		}
		run.Count("violations_confirmed_by_replay", 1)
	}
}

// requireAntecedents fails the check itself (exit 2) when a key monitor never had a true antecedent.
func requireAntecedents(run *h.Run, names ...string) {
	for _, n := range names {
		if run.Counter("antecedent:"+n) == 0 && !run.HasUnknownViolation() {
			fmt.Printf("HARNESS ERROR: antecedent %q never true (vacuous check)\n", n)
			exit(2)
		}
	}
}

// parallel runs f(0..n-1) on 16 workers.
func parallel(n int, f func(i int)) {
	var wg sync.WaitGroup
	var idx int64 = -1
	for w := 0; w < 16; w++ {
		wg.Add(1)
		go func() {
			defer wg.Done()
			for {
				i := int(atomic.AddInt64(&idx, 1))
				if i >= n {
					return
				}
				f(i)
			}
		}()
	}
	wg.Wait()
}
