package checks

import (
	"fmt"
	"os"

	corev1 "k8s.io/api/core/v1"
	"sync"
	"sync/atomic"
	"testing"

	"sigs.k8s.io/controller-runtime/pkg/client"

	"verif/mc/h"
	w "verif/mc/world"
)

// scOpt describes a scenario: a cluster converged on template "A", then the defining first events.
type scOpt struct {
	name    string
	nodes   []string // "n1", "n2:k=a"
	eds     []w.EDSOpt
	extra   []client.Object // further objects of the initial store
	cfg     w.Config
	first   []w.Event // applied after convergence, before the exploration starts (not charged to the budget)
	alpha   *w.Alpha
	budget  int
	tpls    []string
	raw     bool // do not converge first (first deployment scenarios)
	mons    []func(*w.MonCtx)
	noFreq0 bool // keep the default reconcileFrequency (timed scenarios)
	// tpl0: template tag of the initial object (default "A")
	tpl0 string
	// prepare: a longer directed history (user events, fair rounds) leading to the start state; not charged to the budget
	prepare func(t *testing.T, sc *w.Scenario, st *w.State) *w.State
	// nodeAnnots: annotations per node name (resource override annotations)
	nodeAnnots map[string]map[string]string
}

func mkScenario(t *testing.T, o scOpt) *w.Scenario {
	if o.tpls == nil {
		o.tpls = []string{"A", "B", "C"}
	}
	sc := &w.Scenario{Name: o.name, Cfg: o.cfg, Tpls: w.TplMap(o.tpls...), Enabled: o.alpha.Enabled, Monitors: o.mons}
	objs := w.Nodes(o.nodes...)
	for _, ob := range objs {
		if n, ok := ob.(*corev1.Node); ok && o.nodeAnnots[n.Name] != nil {
			n.Annotations = o.nodeAnnots[n.Name]
		}
	}
	opts := o.eds
	if !o.noFreq0 {
		opts = append([]w.EDSOpt{w.WithFrequency(0)}, opts...)
	}
	tpl0 := "A"
	if o.tpl0 != "" {
		tpl0 = o.tpl0
	}
	objs = append(objs, w.NewEDS("ns", "foo", tpl0, opts...))
	objs = append(objs, o.extra...)
	st := w.NewState(0, objs...)
	if !o.raw {
		f, why := w.TryConverge(t, sc, st)
		if f == nil {
			monitoredSetup(t, sc, st, why)
		}
		st = f
	}
	for _, ev := range o.first {
		out := w.Step(t, sc, st, ev)
		if out.CmdErr != nil {
			panic(fmt.Sprintf("scenario %s: first event %s failed: %v", o.name, ev, out.CmdErr))
		}
		st = out.Next
	}
	if o.prepare != nil {
		st = o.prepare(t, sc, st)
	}
	st.Budget = o.budget
	sc.Init = []*w.State{st}
	if os.Getenv("VERIF_DESCRIBE_INIT") == o.name {
		fmt.Println("initial state of", o.name)
		for _, l := range st.Describe() {
			fmt.Println("  " + l)
		}
	}
	return sc
}

// setupRun: the run of the check that is building scenarios (set by the callers of mkScenario that want the set-up
// itself monitored when it fails to converge).
var setupRun *h.Run

// setupNonConvergence: signature under which a set-up that does not converge is itself reported (only C02 sets it).
var setupNonConvergence string

// monitoredSetup is reached when the set-up of a scenario (first deployment of template A by fair rounds) does not
// reach a fixpoint. The same fair rounds are then replayed step by step through the check's own monitors: if one of
// them flags a step, that is this property's violation (with the set-up trace as its replay); if none does, the
// scenario cannot be built and the check stops as a harness error (exit 2) without a verdict.
func monitoredSetup(t *testing.T, sc *w.Scenario, raw *w.State, why string) {
	if setupRun != nil && setupNonConvergence != "" {
		// the property of this check is the fixpoint itself (C02): a first deployment without any fault or deviation
		// that never settles is its violation
		setupRun.Violate(h.Violation{Signature: setupNonConvergence, Monitor: "setup", Message: why,
			Replay: map[string]interface{}{"scenario": sc.Name, "start_state": raw.Describe(), "how": "fair rounds from the start state (first deployment)"}})
		worldFinish(setupRun)
		exit(setupRun.Finish("set-up of scenario " + sc.Name + " by fair rounds"))
	}
	if setupRun == nil || len(sc.Monitors) == 0 {
		panic(why)
	}
	run := setupRun
	sc.Init = []*w.State{raw}
	s := raw
	var evs []w.Event
	step := func(e w.Event) {
		out := w.Step(t, sc, s, e)
		prefix := append([]w.Event{}, evs...)
		mc := w.NewMonCtx(sc, s, out, run, func() (int, []w.Event) { return 0, prefix })
		for _, m := range sc.Monitors {
			m(mc)
		}
		evs = append(evs, e)
		s = out.Next
	}
	for round := 0; round < 8 && !run.HasUnknownViolation(); round++ {
		for _, p := range s.Pods() {
			if p.DeletionTimestamp != nil {
				step(ev("gone", p.Namespace+"/"+p.Name))
			} else if !w.IsReady(p) {
				step(ev("ready", p.Namespace+"/"+p.Name))
			}
		}
		for _, e := range s.EDSs() {
			step(ev("R_eds", e.Namespace+"/"+e.Name))
		}
		for _, e := range s.ERSs() {
			step(ev("R_ers", e.Namespace+"/"+e.Name))
		}
		for _, e := range s.EDSs() {
			step(ev("R_pt", e.Namespace+"/"+e.Name))
		}
	}
	if !run.HasUnknownViolation() {
		panic(why)
	}
	fmt.Println("set-up of scenario", sc.Name, "does not converge; the monitors flagged its steps")
	confirmByReplay(t, run, sc)
	run.Cov["evaluations"] = len(evs)
	run.Count("states", int64(len(evs)))
	run.Count("transitions", int64(len(evs)))
	exit(run.Finish("set-up trace of scenario " + sc.Name + " (fair rounds), monitored step by step"))
}

// explore runs one scenario and accumulates coverage numbers in run.
func explore(t *testing.T, run *h.Run, sc *w.Scenario, maxStates int) *w.Explorer {
	if maxStates == 0 {
		maxStates = 2500000
	}
	ex := &w.Explorer{T: t, Run: run, Sc: sc, MaxStates: maxStates}
	ex.Explore()
	fmt.Printf("  %-28s states=%-7d transitions=%-8d depth=%-3d capped=%v\n", sc.Name, ex.States, ex.Transitions, ex.Depth, ex.Capped)
	run.Nontrivial("scenario:" + sc.Name)
	return ex
}

// worldFinish fills the model-checking coverage keys from the counters.
func worldFinish(run *h.Run) {
	run.Cov["states"] = run.Counter("states")
	run.Cov["transitions"] = run.Counter("transitions")
	run.Cov["traces_validated_against_impl"] = run.Counter("traces_validated_against_impl")
	if _, ok := run.Cov["evaluations"]; !ok {
		run.Cov["evaluations"] = run.Counter("transitions")
	}
}

func ev(k, a string) w.Event     { return w.Event{K: k, A: a} }
func evb(k, a, b string) w.Event { return w.Event{K: k, A: a, B: b} }

// runWorld explores the scenarios with the monitors; stops at the first scenario with an unlisted violation.
func runWorld(t *testing.T, run *h.Run, scs []scOpt, mons []func(*w.MonCtx), maxStates int, visit ...func(sc *w.Scenario, s *w.State, depth int)) {
	// replay mode: re-execute one recorded trace sequentially with the monitors, without the explorer
	if rp := replayFile(); rp != nil {
		var x struct {
			Scenario string    `json:"scenario"`
			Init     int       `json:"init"`
			Events   []w.Event `json:"events"`
		}
		rp.decode(&x)
		if len(x.Events) > 0 {
			for _, o := range scs {
				if o.name == x.Scenario {
					o.mons = mons
					setupRun = run
					sc := mkScenario(t, o)
					final := w.ReplayPath(t, run, sc, x.Init, x.Events)
					fmt.Println("replayed", len(x.Events), "events; final state:")
					for _, l := range final.Describe() {
						fmt.Println("  " + l)
					}
					run.Cov["evaluations"] = len(x.Events)
					run.Count("states", int64(len(x.Events)))
					run.Count("transitions", int64(len(x.Events)))
					exit(run.Finish("replay of one recorded trace"))
				}
			}
			fmt.Println("replay: scenario", x.Scenario, "is not part of this check")
			exit(2)
		}
	}
	for _, o := range scs {
		o.mons = mons
		setupRun = run
		sc := mkScenario(t, o)
		if maxStates == 0 {
			maxStates = 2500000 // memory safety cap per scenario; hitting it is reported as exhaustive:false
		}
		ex := &w.Explorer{T: t, Run: run, Sc: sc, MaxStates: maxStates}
		if len(visit) > 0 {
			ex.Visit = func(s *w.State, d int) { visit[0](sc, s, d) }
		}
		ex.Explore()
		fmt.Printf("  %-28s states=%-7d transitions=%-8d depth=%-3d capped=%v\n", sc.Name, ex.States, ex.Transitions, ex.Depth, ex.Capped)
		run.Nontrivial("scenario:" + sc.Name)
		confirmByReplay(t, run, sc)
		if run.HasUnknownViolation() {
			break
		}
	}
	worldFinish(run)
}

// confirmByReplay re-executes the trace of every violation of this scenario three times from scratch; a violation
// that does not reproduce with the same signature every time is a harness error (exit 2), never a verdict.
func confirmByReplay(t *testing.T, run *h.Run, sc *w.Scenario) {
	for _, v := range run.Violations() {
		rep, ok := v.Replay.(map[string]interface{})
		if !ok || rep["scenario"] != sc.Name {
			continue
		}
		evs, ok := rep["events"].([]w.Event)
		if !ok {
			continue
		}
		init, _ := rep["init"].(int)
		for i := 0; i < 3; i++ {
			scratch := h.NewRun(run.Property, "model_checking")
			w.ReplayPath(t, scratch, sc, init, evs)
			if !scratch.Has(v.Signature) {
				fmt.Printf("HARNESS ERROR: violation %q did not reproduce when its trace was replayed (attempt %d)\n", v.Signature, i+1)
				exit(2)
			}
		}
		run.Count("violations_confirmed_by_replay", 1)
	}
}

// requireAntecedents fails the check itself (exit 2) when a key monitor never had a true antecedent.
func requireAntecedents(run *h.Run, names ...string) {
	for _, n := range names {
		if run.Counter("antecedent:"+n) == 0 && !run.HasUnknownViolation() {
			if run.Expired() {
				// the internal deadline cut the exploration short: nothing is claimed about what was not reached
				run.NotExhaustive(fmt.Sprintf("deadline reached before antecedent %q was exercised", n))
				continue
			}
			fmt.Printf("HARNESS ERROR: antecedent %q never true (vacuous check)\n", n)
			exit(2)
		}
	}
}

// parallel runs f(0..n-1) on 16 workers.
func parallel(n int, f func(i int)) {
	var wg sync.WaitGroup
	var idx int64 = -1
	for w := 0; w < 16; w++ {
		wg.Add(1)
		go func() {
			defer wg.Done()
			for {
				i := int(atomic.AddInt64(&idx, 1))
				if i >= n {
					return
				}
				f(i)
			}
		}()
	}
	wg.Wait()
}
