package checks

import (
	"fmt"
	"testing"
	"time"

	v1 "github.com/DataDog/extendeddaemonset/api/v1alpha1"

	"verif/mc/h"
	w "verif/mc/world"
)

func TestC08(t *testing.T) {
	run := h.NewRun("C08", "model_checking")
	b := 2
	n2, n3 := []string{"n1", "n2"}, []string{"n1", "n2", "n3"}
	toggles := &w.Alpha{Annots: []string{"rolling-update-paused=true", "rolling-update-paused=false", "rolling-update-paused-", "rollout-frozen=true", "rollout-frozen=false", "rollout-frozen-", "rolling-update-paused=True"},
		AddNodes: []string{"n9"}, PodDev: []string{"unready"}}
	canaryToggles := &w.Alpha{Annots: []string{"canary-paused=true", "canary-paused=false", "canary-unpaused=true", "canary-paused-"},
		Kubectl: []string{"canary-pause", "canary-unpause", "canary-validate"}, PodDev: []string{"restart:2"}, AddNodes: []string{"n9"}}
	qToggles := &w.Alpha{Annots: []string{"rolling-update-paused=true", "rolling-update-paused=false", "rollout-frozen=true", "rollout-frozen-", "rolling-update-paused=True"}, AddNodes: []string{"n9"}}
	qCanary := &w.Alpha{Annots: []string{"canary-paused=true", "canary-unpaused=true"}, Kubectl: []string{"canary-pause", "canary-unpause", "canary-validate"}, PodDev: []string{"restart:2"}}
	scs := []scOpt{corpusS2(n2, "1", b, qToggles), corpusS3(n2, "2", "auto", b, qCanary)}
	// a canary that was paused and unpaused by command before its first pod exists: a further "canary pause" must hold
	// back the pods that are still to be created
	s3pu := corpusS3(n2, "2", "auto", b, &w.Alpha{Kubectl: []string{"canary-pause", "canary-unpause"}})
	s3pu.name = "S3-canary-paused-unpaused-before"
	s3pu.first = []w.Event{evb("setTemplate", edsKey, "B"), ev("R_eds", edsKey), ev("R_eds", edsKey), evb("kubectl", edsKey, "canary-pause"), evb("kubectl", edsKey, "canary-unpause")}
	scs = append(scs, s3pu)
	// a canary that pauses itself (restarts above autoPause.maxRestarts: only the replica set's condition says so) and whose
	// duration then runs out: elapsed time must not promote it
	s3ap := corpusS3(n2, "1", "auto", 2, &w.Alpha{PodDev: []string{"restart:2"}, Ticks: []int{700}})
	s3ap.name = "S3-canary-auto-paused-duration-elapses"
	scs = append(scs, s3ap)
	if h.Thorough() {
		scs = []scOpt{s3pu, s3ap, corpusS2(n3, "1", 2, toggles), corpusS2(n2, "1", 3, toggles), corpusS3(n3, "2", "auto", 3, canaryToggles)}
	}
	type start struct {
		sc *w.Scenario
		s  *w.State
	}
	var held []start
	perSc := map[string]int{}  // closure starts kept per scenario
	seenSc := map[string]int{} // paused/frozen states seen per scenario: the first 3000 are all used, then every 5th
	k := 0
	runWorld(t, run, scs, []func(*w.MonCtx){w.MonC08, w.MonC14Status, w.MonC05}, 0, func(sc *w.Scenario, s *w.State, d int) {
		e := s.EDS("ns", "foo")
		if e == nil {
			return
		}
		autoPaused := false
		if e.Status.Canary != nil {
			if crs := s.ERS("ns", e.Status.Canary.ReplicaSet); crs != nil && w.ERSCondTrue(crs, v1.ConditionTypeCanaryPaused) {
				autoPaused = true
			}
		}
		if w.AnnotTrue(e, "rolling-update-paused") || w.AnnotTrue(e, "rollout-frozen") || w.AnnotTrue(e, "canary-paused") || autoPaused {
			k++
			seenSc[sc.Name]++
			if h.Thorough() || seenSc[sc.Name] <= 3000 || k%5 == 0 {
				if perSc[sc.Name] < 50000 {
					perSc[sc.Name]++
					held = append(held, start{sc, s})
				} else {
					run.Count("held_states_not_kept", 1)
				}
			}
		}
	})
	requireAntecedents(run, "C08/paused-or-frozen-active-sync", "C08/canary-paused-sync")
	// closures: (1) paused and not frozen: pods are still created on eligible nodes that have none;
	// (2) resume: annotation removed (or canary validated) => the C02 fixpoint is reached.
	parallel(len(held), func(i int) {
		st := held[i]
		e := st.s.EDS("ns", "foo")
		if w.AnnotTrue(e, "rolling-update-paused") && !w.AnnotTrue(e, "rollout-frozen") && e.Status.Canary == nil {
			r := w.Closure(t, st.sc, st.s, w.ClosureOpts{SkipJumps: true})
			run.Count("antecedent:C08/paused-closure", 1)
			if r.Converged {
				fe := r.Final.EDS("ns", "foo")
				cover := map[string]bool{}
				for _, p := range r.Final.Pods() {
					if w.OwnedBy(p, "ns", "foo") && p.DeletionTimestamp == nil {
						cover[w.TargetNode(p)] = true
					}
				}
				for _, n := range r.Final.Nodes() {
					if w.Eligible(n, &fe.Spec.Template) && !cover[n.Name] {
						run.Violate(h.Violation{Signature: "C08/paused-creates: while rolling-update-paused an eligible node without pod never gets one", Monitor: "C08/closure",
							Message: n.Name, Replay: map[string]interface{}{"scenario": st.sc.Name, "start_state": st.s.Describe(), "final_state": r.Final.Describe()}})
					}
				}
			}
		}
		// (3) a paused canary (by annotation or by the replica set's own Canary-Paused condition, e.g. auto-paused after
		// restarts) resumes on `kubectl-eds canary unpause`: it does not stay (or fall back to) Canary Paused
		if e.Status.Canary != nil && e.Spec.Strategy.Canary != nil {
			crs := st.s.ERS("ns", e.Status.Canary.ReplicaSet)
			if crs != nil && !w.ERSCondTrue(crs, v1.ConditionTypeCanaryFailed) && (w.AnnotTrue(e, "canary-paused") || w.ERSCondTrue(crs, v1.ConditionTypeCanaryPaused)) {
				out := w.Step(t, st.sc, st.s, evb("kubectl", edsKey, "canary-unpause"))
				// whether the command acts or refuses, the canary must not stay paused afterwards unless the user's pause
				// annotation says so. One refusal is tolerated: the annotations already say canary-paused=false (set by an
				// earlier unpause or by hand) - the command then answers "not paused", whatever the replica set has latched.
				_, handSet := w.Annot(e, "canary-paused")
				if out.CmdErr == nil || !handSet {
					r := w.Closure(t, st.sc, out.Next, w.ClosureOpts{SkipJumps: true, MaxStep: 10 * time.Second})
					run.Count("antecedent:C08/unpause-closure", 1)
					run.Count("closures", 1)
					if r.Converged {
						fe := r.Final.EDS("ns", "foo")
						frs := r.Final.ERS("ns", crs.Name)
						stillCanary := fe != nil && fe.Status.Canary != nil && fe.Status.Canary.ReplicaSet == crs.Name
						if stillCanary && frs != nil && !w.ERSCondTrue(frs, v1.ConditionTypeCanaryFailed) && !w.AnnotTrue(fe, "canary-paused") &&
							(fe.Status.State == v1.ExtendedDaemonSetStatusStateCanaryPaused || w.ERSCondTrue(frs, v1.ConditionTypeCanaryPaused)) {
							run.Violate(h.Violation{Signature: "C08/unpause: a paused canary does not resume after canary unpause", Monitor: "C08/closure",
								Message: fmt.Sprintf("state=%s Canary-Paused=%v command error=%v", fe.Status.State, w.ERSCondTrue(frs, v1.ConditionTypeCanaryPaused), out.CmdErr),
								Replay:  map[string]interface{}{"scenario": st.sc.Name, "start_state": st.s.Describe(), "then": "kubectl-eds canary unpause, fair rounds", "final_state": r.Final.Describe()}})
						}
					}
				}
			}
		}
		r := w.Closure(t, st.sc, st.s, w.ClosureOpts{Validate: true, Resume: true, SkipJumps: true})
		run.Count("antecedent:C08/resume-closure", 1)
		run.Count("closures", 1)
		sig, msg := "", ""
		if !r.Converged {
			sig, msg = "C08/resume: after removing the annotation the rollout does not complete", r.Why
		} else if s2, m2 := w.CheckConverged(r.Final, "ns", "foo"); s2 != "" {
			sig, msg = "C08/resume: after resuming, "+s2, m2
		}
		if sig != "" {
			run.Violate(h.Violation{Signature: sig, Monitor: "C08/closure", Message: msg, Replay: map[string]interface{}{"scenario": st.sc.Name, "start_state": st.s.Describe(), "final_state": r.Final.Describe()}})
		}
	})
	requireAntecedents(run, "C08/resume-closure", "C08/paused-closure", "C08/unpause-closure")
	if n := run.Counter("held_states_not_kept"); n > 0 {
		run.NotExhaustive(fmt.Sprintf("%d states beyond the first 50000 of a scenario were not used as closure starts", n))
	}
	exit(run.Finish(fmt.Sprintf("BFS of rolling-update and canary scenarios with every toggling order of the paused / frozen / canary-paused / canary-unpaused annotations (and kubectl-eds pause/unpause/validate) up to the budget, all interleavings; monitors: nothing withheld is done (C08), status.state (C14 status function), no promotion while paused (C05); closures from %d held states for 'still creates' and 'resumes'; non-trivial = scenarios", len(held))))
}
