//go:build !helpers

package checks

import (
	"testing"

	"verif/mc/h"
)

// Stubs used when the helper-level harness does not compile against the working tree
// (an exported helper was renamed or re-shaped): the checks then run their Reconcile-level twins only.
func c03Helper(t *testing.T, run *h.Run, maxN int) bool { return false }

func c06HelperAvailable() bool                         { return false }
func c06HelperOne(t *testing.T, run *h.Run, c c06Case) {}

func c09HelperAvailable() bool                         { return false }
func c09HelperOne(t *testing.T, run *h.Run, c c09Case) {}

func c09DeleteHelper(t *testing.T, run *h.Run, seqs [][]int) bool { return false }

func c17HelperAvailable() bool                      { return false }
func c17Helper(t *testing.T, run *h.Run, c c17Case) {}
