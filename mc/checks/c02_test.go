package checks

import (
	"fmt"
	corev1 "k8s.io/api/core/v1"
	"strings"
	"testing"

	"sigs.k8s.io/controller-runtime/pkg/client"

	v1 "github.com/DataDog/extendeddaemonset/api/v1alpha1"

	"verif/mc/h"
	w "verif/mc/world"
)

func rolloutDev() *w.Alpha {
	return &w.Alpha{Templates: []string{"A", "C"}, Annots: []string{"rolling-update-paused=true", "rollout-frozen=true", "rolling-update-paused-", "rollout-frozen-"},
		PodDev: []string{"unready", "restart:1", "fail"}, AddNodes: []string{"n9"}, DelNodes: true, Taints: []string{"NoSchedule"}}
}

func c02Scenarios() []scOpt {
	n2, n3 := []string{"n1", "n2"}, []string{"n1", "n2", "n3"}
	b := 1
	var scs []scOpt
	scs = append(scs, corpusS1(b, &w.Alpha{PodDev: []string{"fail", "unknown"}, AddNodes: []string{"n9"}, DelNodes: true, Taints: []string{"NoExecute", "cordon"}}))
	scs = append(scs, corpusS2(n2, "1", b, rolloutDev()))
	s := corpusS2(n3, "50%", 0, rolloutDev())
	s.eds = append(s.eds, w.WithRolling("50%", "50%", 1, 0))
	s.name = "S2-mu50%-slow50%-par1"
	scs = append(scs, s)
	// percentages whose rounding direction matters: 30% of 3 nodes (and of 2 after a node left) must round UP to 1
	s30 := corpusS2(n3, "30%", b, &w.Alpha{DelNodes: true, Taints: []string{"NoSchedule"}, PodDev: []string{"unready"}})
	s30.eds = append(s30.eds, w.WithRolling("30%", "30%", 0, 0))
	s30.name = "S2-mu30%-slow30%"
	scs = append(scs, s30)
	scs = append(scs, corpusS3(n3, "1", "auto", b, canaryDev()))
	scs = append(scs, corpusS3(n2, "1", "manual", b, canaryDev()))
	// S5: migration from an apps/v1 DaemonSet
	scs = append(scs, scOpt{name: "S5-migration", nodes: n2, eds: []w.EDSOpt{w.WithAnnotation(v1.ExtendedDaemonSetOldDaemonsetAnnotationKey, "old")},
		extra: []client.Object{oldDS("ns", "old", map[string]string{"app": "old"}),
			strayPod("ns", "old-n1", "n1", map[string]string{"app": "old"}, "old"), strayPod("ns", "old-n2", "n2", map[string]string{"app": "old"}, "old")},
		raw: true, alpha: &w.Alpha{PodDev: []string{"unready"}}, budget: 1})
	// S7: a valid setting selecting every node and a resource override annotation for the same container on n1
	set := c10Setting(c10Case{Setting: "main-both"}, "300m")
	set.Spec.NodeSelector.MatchLabels = map[string]string{}
	s7 := corpusS2(n2, "1", b, &w.Alpha{Settings: true, PodDev: []string{"unready"}, AddNodes: []string{"n9"}})
	s7.name = "S7-setting-and-node-override"
	s7.extra = []client.Object{set}
	s7.nodeAnnots = map[string]map[string]string{"n1": {"resources.extendeddaemonset.datadoghq.com/ns.foo.main": `{"requests":{"cpu":"200m"}}`}}
	scs = append(scs, s7)
	// S3e: the user edits the canary block while the canary runs (removes it / asks for more or fewer replicas)
	s3e := corpusS3(n3, "1", "auto", b, &w.Alpha{SpecEdits: []string{"drop-canary", "canary-replicas=2", "canary-replicas=1"}})
	s3e.name = "S3-canary-spec-edits"
	scs = append(scs, s3e)
	// S8: templates with a nodeSelector AND a node affinity that has only a preferred term; one node outside the selector,
	// another one may join or be relabelled
	const selA, selB = "A+nodesel:k=a+preferred", "B+nodesel:k=a+preferred"
	s8 := scOpt{name: "S8-nodeselector-and-preferred-affinity", nodes: []string{"n1:k=a", "n2:k=a", "n3"}, tpl0: selA, tpls: []string{selA, selB},
		eds: []w.EDSOpt{w.WithRolling("1", "", 0, 0)}, first: []w.Event{evb("setTemplate", edsKey, selB)},
		alpha: &w.Alpha{AddNodes: []string{"n9", "n8:k=a"}, PodDev: []string{"unready"}}, budget: b}
	scs = append(scs, s8)
	// S9: templates that tolerate not-ready:NoSchedule themselves; a node turns NotReady (both not-ready taints), another
	// one may join: with the standard DaemonSet tolerations every such node stays eligible
	const tnA, tnB = "A+tolnr", "B+tolnr"
	s9 := scOpt{name: "S9-template-tolerates-not-ready-noschedule", nodes: n2, tpl0: tnA, tpls: []string{tnA, tnB},
		eds: []w.EDSOpt{w.WithRolling("1", "", 0, 0)}, first: []w.Event{evb("setTemplate", edsKey, tnB)},
		alpha: &w.Alpha{Taints: []string{"notready"}, AddNodes: []string{"n9"}}, budget: b}
	scs = append(scs, s9)
	if h.Thorough() {
		scs[1] = corpusS2(n3, "1", 2, rolloutDev())
		scs[4] = corpusS3(n3, "1", "auto", 2, canaryDev())
		scs[len(scs)-3].budget = 2
		scs = append(scs, corpusS3([]string{"n1", "n2", "n3", "n4"}, "2", "auto", 1, canaryDev()))
	}
	return scs
}

func TestC02(t *testing.T) {
	run := h.NewRun("C02", "model_checking")
	setupNonConvergence = "C02/setup: a first deployment on a quiet cluster never reaches a fixpoint"
	type start struct {
		sc *w.Scenario
		s  *w.State
	}
	var starts []start
	every := 1
	if !h.Thorough() {
		every = 4
	}
	flush := func() {
		batch := starts
		starts = nil
		parallel(len(batch), func(i int) {
			if run.Expired() {
				run.Count("closures_skipped_deadline", 1)
				return
			}
			st := batch[i]
			opts := []w.ClosureOpts{{Validate: true, Resume: true}}
			if len(st.s.ERSs()) > 1 && (len(st.s.Backoff) > 0 || hasFailedPod(st.s)) {
				// the failed-pod back-off is in-memory state shared by the syncs of all replica sets: both orders
				opts = append(opts, w.ClosureOpts{Validate: true, Resume: true, ReverseERS: true})
			}
			for _, o := range opts {
				c02Closure(t, run, st.sc, st.s, o)
			}
		})
	}
	k := 0
	seenSc := map[string]int{}
	// closures run in batches while the search proceeds, so that the start states need not all be kept in memory
	runWorld(t, run, c02Scenarios(), []func(*w.MonCtx){monC02Mem}, 0, func(sc *w.Scenario, s *w.State, d int) {
		k++
		seenSc[sc.Name]++
		// the first 2000 states of a scenario (breadth first: the shallow ones) all start a closure, then every 4th
		if k%every == 0 || d == 0 || seenSc[sc.Name] <= 2000 {
			starts = append(starts, start{sc, s})
			if len(starts) >= 20000 {
				flush()
			}
		}
	})
	flush()
	if run.Counter("closures_skipped_deadline") > 0 {
		run.NotExhaustive(fmt.Sprintf("%d closures skipped at the deadline", run.Counter("closures_skipped_deadline")))
	}
	requireAntecedents(run, "C02/fixpoint", "C02/user-failed-closure")
	run.Cov["evaluations"] = run.Counter("closures")
	exit(run.Finish(fmt.Sprintf("BFS of scenarios S1-S7 (first deployment, rolling updates with several configurations, auto and manual canaries incl. failure and edits of the canary block, DaemonSet migration, setting + node override) with template/annotation/node/pod deviations; from the first 2000 states of each scenario and every %d-th after (every state in thorough) the deterministic fair closure is run (both replica-set orders when a failed-pod back-off is pending) and must reach a lasting fixpoint with one Ready live-template pod per eligible node; non-trivial = distinct (scenario, rounds-to-fixpoint)", every)))
}

// monC02Mem remembers a canary the user marked failed ("the previously active template after a canary failure"): the mark
// stands until the user changes the template again or validates the canary.
func monC02Mem(c *w.MonCtx) {
	set := func(v string) {
		if c.Out.Next.Mem == nil {
			c.Out.Next.Mem = map[string]string{}
		}
		if v == "" {
			delete(c.Out.Next.Mem, "c02:user-failed")
		} else {
			c.Out.Next.Mem["c02:user-failed"] = v
		}
	}
	switch {
	case c.Out.Ev.K == "kubectl" && c.Out.Ev.B == "canary-fail" && c.Out.CmdErr == nil:
		if e := c.Pre.EDS("ns", "foo"); e != nil && e.Status.Canary != nil {
			if rs := c.Pre.ERS("ns", e.Status.Canary.ReplicaSet); rs != nil {
				if _, valid := w.Annot(e, "canary-valid"); !valid {
					set(rs.Name + "|" + rs.Spec.TemplateGeneration)
				}
			}
		}
	case c.Out.Ev.K == "kubectl" && c.Out.Ev.B == "canary-validate" && c.Out.CmdErr == nil, c.Out.Ev.K == "setTemplate", c.Out.Ev.K == "editSpec":
		if _, ok := c.Pre.Mem["c02:user-failed"]; ok {
			set("")
		}
	}
}

func hasFailedPod(s *w.State) bool {
	for _, p := range s.Pods() {
		if p.Status.Phase == corev1.PodFailed && p.DeletionTimestamp == nil {
			return true
		}
	}
	return false
}

func c02Closure(t *testing.T, run *h.Run, sc *w.Scenario, s *w.State, o w.ClosureOpts) {
	{
		{
			st := struct {
				sc *w.Scenario
				s  *w.State
			}{sc, s}
			r := w.Closure(t, st.sc, st.s, o)
			run.Count("closures", 1)
			replay := func() interface{} {
				o2 := o
				o2.Trace = true
				r2 := w.Closure(t, st.sc, st.s, o2)
				return map[string]interface{}{"scenario": st.sc.Name, "start_state": st.s.Describe(), "reverse_replica_set_order": o.ReverseERS, "closure_trace": r2.Trace, "final_state": r2.Final.Describe()}
			}
			if !r.Converged {
				run.Violate(h.Violation{Signature: "C02/converge: fair reconciliation does not reach a lasting fixpoint: " + classify(r.Why), Monitor: "C02/closure", Message: r.Why, Replay: replay()})
				return
			}
			run.Count("antecedent:C02/fixpoint", 1)
			run.Nontrivial(fmt.Sprintf("rounds:%s:%d", st.sc.Name, r.Rounds))
			if uf := st.s.Mem["c02:user-failed"]; uf != "" {
				// a canary the user marked failed: the live template is the previously active one, so the object must not
				// have settled on the failed template (by promotion or by keeping it as spec.template)
				run.Count("antecedent:C02/user-failed-closure", 1)
				parts := strings.SplitN(uf, "|", 2)
				if e := r.Final.EDS("ns", "foo"); e != nil && (w.TemplateHash(&e.Spec.Template) == parts[1] || e.Status.ActiveReplicaSet == parts[0]) {
					run.Violate(h.Violation{Signature: "C02/live-template: after the user failed the canary the cluster settled on the failed template instead of the previously active one", Monitor: "C02/fixpoint",
						Message: fmt.Sprintf("failed replica set %s; active=%s spec.template=%s", parts[0], e.Status.ActiveReplicaSet, w.TemplateTag(&e.Spec.Template)), Replay: replay()})
				}
			}
			for _, e := range r.Final.EDSs() {
				if sig, msg := w.CheckConverged(r.Final, e.Namespace, e.Name); sig != "" {
					run.Violate(h.Violation{Signature: sig, Monitor: "C02/fixpoint", Message: msg, Replay: replay()})
				}
			}
		}
	}
}

func classify(why string) string {
	if len(why) > 0 && why[0] == 'n' {
		return "no fixpoint within the round bound"
	}
	return "fixpoint did not persist"
}
