package checks

import (
	"fmt"
	"strconv"
	"strings"
	"testing"
	"time"

	corev1 "k8s.io/api/core/v1"
	metav1 "k8s.io/apimachinery/pkg/apis/meta/v1"
	"sigs.k8s.io/controller-runtime/pkg/client"

	v1 "github.com/DataDog/extendeddaemonset/api/v1alpha1"

	"verif/mc/h"
	w "verif/mc/world"
)

type c09Case struct {
	L          int    `json:"nodes_lacking_pod"`
	K          int    `json:"nodes_with_pod"`
	T          int    `json:"elapsed_since_active_s"`
	I          int    `json:"slowStartInterval_s"`
	Increase   string `json:"slowStartAdditiveIncrease"`
	Parallel   int32  `json:"maxParallelPodCreation"`
	ActiveCnd  string `json:"active_condition"`
	Untargeted int    `json:"listed_nodes_not_targeted"` // nodes with an untolerated taint: listed, but not targeted
}

func c09Cases(thorough bool) []c09Case {
	var out []c09Case
	maxL := 5
	if thorough {
		maxL = 7
	}
	for L := 0; L <= maxL; L++ {
		for _, K := range []int{0, 1} {
			if L+K > 8 {
				continue
			}
			for _, I := range []int{1, 60} {
				for _, T := range []int{0, I - 1, I, I + 1, 2 * I, 10 * I} {
					for _, inc := range []string{"1", "2", "50%", "100%"} {
						for _, par := range []int32{1, 2, 250} {
							for _, ac := range []string{"absent", "False", "True"} {
								out = append(out, c09Case{L, K, T, I, inc, par, ac, 0})
								if strings.HasSuffix(inc, "%") && ac == "True" {
									out = append(out, c09Case{L, K, T, I, inc, par, ac, 2})
								}
							}
						}
					}
				}
			}
		}
	}
	return out
}

func c09Ramp(c c09Case) int {
	t := c.T
	if c.ActiveCnd != "True" {
		t = 0
	}
	inc := resolveStr(c.Increase, c.L+c.K)
	r := (1 + t/c.I) * inc
	if r > int(c.Parallel) {
		r = int(c.Parallel)
	}
	return r
}

func c09Objects(c c09Case, now time.Time) (*v1.ExtendedDaemonSet, *v1.ExtendedDaemonSetReplicaSet, []*corev1.Node, map[string]*corev1.Pod) {
	eds := w.NewEDS("ns", "foo", "A", w.WithFrequency(10*time.Second), w.WithRolling("1", c.Increase, c.Parallel, time.Duration(c.I)*time.Second))
	eds = v1.DefaultExtendedDaemonSet(eds, "auto")
	rs := mkERS("ns", "foo-a", "foo", w.Tpl("A"), now.Add(-time.Hour))
	eds.Status.ActiveReplicaSet = rs.Name
	if c.ActiveCnd != "absent" {
		at := metav1.NewTime(now.Add(-time.Duration(c.T) * time.Second))
		rs.Status.Conditions = []v1.ExtendedDaemonSetReplicaSetCondition{{Type: v1.ConditionTypeActive, Status: corev1.ConditionStatus(c.ActiveCnd), LastTransitionTime: at, LastUpdateTime: at}}
	}
	var nodes []*corev1.Node
	pods := map[string]*corev1.Pod{}
	for i := 0; i < c.L+c.K; i++ {
		n := fmt.Sprintf("n%d", i+1)
		nodes = append(nodes, w.MkNode(n, nil))
		if i >= c.L {
			pods[n] = c03Pod(cUpAvail, "ns", rs.Name, "foo", n, rs.Spec.TemplateGeneration, now)
		}
	}
	for i := 0; i < c.Untargeted; i++ {
		n := w.MkNode(fmt.Sprintf("t%d", i+1), nil)
		n.Spec.Taints = []corev1.Taint{{Key: "dedicated", Value: "x", Effect: corev1.TaintEffectNoSchedule}}
		nodes = append(nodes, n)
	}
	return eds, rs, nodes, pods
}

func c09Judge(run *h.Run, level string, c c09Case, creates int) {
	ramp := c09Ramp(c)
	if creates > ramp {
		run.Violate(h.Violation{Signature: "C09/ramp: more pods created in one sync than min(maxParallelPodCreation, (1+floor(t/interval))*increase)", Monitor: "C09/" + level,
			Message: fmt.Sprintf("created %d, ramp %d", creates, ramp), Rank: int64(c.L), Replay: map[string]interface{}{"level": level, "case": c}})
	}
	if creates == min(c.L, ramp) {
		run.Count("ramp_reached", 1)
	} else if creates < min(c.L, ramp) {
		run.Count("below_ramp", 1)
	}
	run.Nontrivial(fmt.Sprintf("creates=%d ramp=%d", creates, ramp))
}

func c09TwinOne(t *testing.T, run *h.Run, c c09Case) {
	w.InBubble(t, time.Hour, func() {
		now := time.Now()
		eds, rs, nodes, pods := c09Objects(c, now)
		objs := []client.Object{eds, rs}
		for _, n := range nodes {
			objs = append(objs, n)
		}
		for _, p := range pods {
			objs = append(objs, p)
		}
		st := w.NewState(0, objs...)
		l := w.NewLive(st, w.Config{})
		l.API.ResetLog()
		l.ReconcileERS("ns", rs.Name)
		creates := 0
		for _, call := range l.API.Log {
			if call.Verb == "create" && call.Kind == "Pod" {
				creates++
			}
		}
		c09Judge(run, "reconcile", c, creates)
	})
}

// c09DeleteJudge: "it deletes at most maxUnavailable pods for updating" on one sync.
func c09DeleteJudge(deleted []bool, mu, mf int) (string, string) {
	n := 0
	for _, d := range deleted {
		if d {
			n++
		}
	}
	if n > mu {
		return "C09/deletes: more than maxUnavailable pods deleted for updating in one sync", fmt.Sprintf("%d > %d", n, mu)
	}
	return "", ""
}

// c09DeleteLattice: every sequence of the node classes that enter the deletion arithmetic differently, for 1..maxN
// nodes, through the real ManageDeployment and (up to 3 nodes) a real replica-set sync.
func c09DeleteLattice(t *testing.T, run *h.Run, maxN int) {
	core := []int{cNoPod, cUpAvail, cOldAvail, cOldUnavail, cOldFailed, cStuckUnsched}
	var seqs, small [][]int
	for n := 1; n <= maxN; n++ {
		forEachSeq(n, len(core), func(seq []int) {
			m := make([]int, len(seq))
			for i, x := range seq {
				m[i] = core[x]
			}
			seqs = append(seqs, m)
			if n <= 3 {
				small = append(small, m)
			}
		})
	}
	if !c09DeleteHelper(t, run, seqs) {
		small = seqs
		if maxN > 4 {
			small = nil
			for _, q := range seqs {
				if len(q) <= 4 {
					small = append(small, q)
				}
			}
		}
	}
	cfgs := c03Configs()
	parallel(len(small), func(i int) {
		for _, cfg := range cfgs {
			c03TwinEval(t, run, "C09", small[i], cfg, c09DeleteJudge)
		}
		run.Count("twin_reconciles", int64(len(cfgs)))
	})
}

// MonC09 — world monitor: per-sync creation bound, per-sync update-deletion bound, spacing of mutating syncs.
// c09Spacing: spacing of mutating syncs of one replica set (the memory is part of the state).
func c09Spacing(c *w.MonCtx, v *w.SyncView, name string, mut bool) {
	key := "lastmut:" + name
	if mut {
		if prev, ok := c.Pre.Mem[key]; ok {
			parts := strings.Split(prev, ":")
			sec, _ := strconv.Atoi(parts[0])
			gap := int(c.Pre.Now/time.Second) - sec
			freq := int(v.EDS.Spec.Strategy.ReconcileFrequency.Duration / time.Second)
			c.Antecedent("C09/second-mutating-sync")
			if parts[1] == "ok" && gap < freq-1 {
				c.Violate("C09", "C09/spacing: two syncs of one replica set that create or delete pods are closer than reconcileFrequency", fmt.Sprintf("gap %ds < %ds", gap, freq))
			}
		}
		// "as long as its status writes succeed": a sync none of whose status writes failed - a mutating sync that does not
		// even attempt one has not had a failing write
		ok := "ok"
		for _, call := range c.Out.Log {
			if call.Kind == "ExtendedDaemonSetReplicaSet" && call.Sub == "status" && call.Err != nil {
				ok = "fail"
			}
		}
		if c.Out.Next.Mem == nil {
			c.Out.Next.Mem = map[string]string{}
		}
		c.Out.Next.Mem[key] = fmt.Sprintf("%d:%s", int(c.Pre.Now/time.Second), ok)
	}
}

func monC09(c *w.MonCtx) {
	if c.Out.Ev.K != "R_ers" {
		return
	}
	i := strings.IndexByte(c.Out.Ev.A, '/')
	ns, name := c.Out.Ev.A[:i], c.Out.Ev.A[i+1:]
	v := w.BuildSyncView(c.Pre, c.Out.Log, ns, name)
	if v == nil {
		return
	}
	if v.Role != "active" {
		// the spacing clause speaks of "the same replica set", whatever its role is at the two moments
		c09Spacing(c, v, name, len(v.Creates)+len(v.Deletes) > 0)
		return
	}
	ru := v.EDS.Spec.Strategy.RollingUpdate
	targeted := 0
	for n, ok := range v.Eligible {
		if ok && !v.Ignored[n] {
			targeted++
		}
	}
	now := w.Epoch.Add(c.Pre.Now)
	t := time.Duration(0)
	if ac := w.ERSCond(v.RS, v1.ConditionTypeActive); ac != nil && ac.Status == corev1.ConditionTrue {
		t = now.Sub(ac.LastTransitionTime.Time)
	}
	inc, _ := w.Resolve(ru.SlowStartAdditiveIncrease, targeted)
	ramp := (1 + int(t/ru.SlowStartIntervalDuration.Duration)) * inc
	if ramp > int(*ru.MaxParallelPodCreation) {
		ramp = int(*ru.MaxParallelPodCreation)
	}
	if len(v.Creates) > 0 {
		c.Antecedent("C09/creates")
	}
	if len(v.Creates) > ramp {
		c.Violate("C09", "C09/ramp: more pods created in one sync than min(maxParallelPodCreation, (1+floor(t/interval))*increase)", fmt.Sprintf("created %d ramp %d t=%v", len(v.Creates), ramp, t))
	}
	mu, _ := w.Resolve(ru.MaxUnavailable, targeted)
	upd := 0
	for _, d := range v.Deletes {
		if p := v.PodByKey[d.NS+"/"+d.Name]; p != nil && v.IsUpdateDeletion(p) && w.PodHash(p) != v.RS.Spec.TemplateGeneration {
			upd++
		}
	}
	if upd > mu {
		c.Violate("C09", "C09/deletes: more than maxUnavailable pods deleted for updating in one sync", fmt.Sprintf("%d > %d", upd, mu))
	}
	c09Spacing(c, v, name, len(v.Creates)+upd > 0)
}

func TestC09(t *testing.T) {
	run := h.NewRun("C09", "model_checking")
	if rp := replayFile(); rp != nil && strings.Contains(string(rp.raw["replay"]), "\"case\"") {
		var x struct {
			Level string  `json:"level"`
			Case  c09Case `json:"case"`
		}
		rp.decode(&x)
		if x.Level == "reconcile" {
			c09TwinOne(t, run, x.Case)
		} else {
			c09HelperOne(t, run, x.Case)
		}
		exit(run.Finish("replay"))
	}
	cases := c09Cases(h.Thorough())
	haveHelper := c09HelperAvailable()
	parallel(len(cases), func(i int) {
		c := cases[i]
		if haveHelper {
			c09HelperOne(t, run, c)
			run.Count("helper_calls", 1)
		}
		if c.L <= 3 || !haveHelper {
			c09TwinOne(t, run, c)
			run.Count("twin_reconciles", 1)
		}
	})
	dn := 5
	if h.Thorough() {
		dn = 6
	}
	c09DeleteLattice(t, run, dn)
	if run.Counter("ramp_reached") == 0 {
		fmt.Println("HARNESS ERROR: ramp never reached (vacuous)")
		exit(2)
	}
	// world: timed first deployment and rolling update, requests arriving at every second
	horizon := 26 * time.Second
	nodes := []string{"n1", "n2"}
	if h.Thorough() {
		nodes = []string{"n1", "n2", "n3"}
		horizon = 32 * time.Second
	}
	// a pod creation rejected by the API server (the status write of that sync still succeeds) is a bounded deviation
	// the rolling update may also see its active replica set deleted with foreground propagation (it lingers, terminating)
	ticks := &w.Alpha{NoEDS: true, FreeTicks: []int{1, 5, 10}}
	ticksFg := &w.Alpha{NoEDS: true, FreeTicks: []int{1, 10}, FgDelete: true}
	ticksFaults := &w.Alpha{NoEDS: true, FreeTicks: []int{1, 5, 10}, ERSFaults: []string{"reject:n1", "reject:n2"}}
	timed := func(o scOpt) scOpt {
		o.noFreq0 = true
		o.eds = append(o.eds, w.WithFrequency(10*time.Second), w.WithRolling("1", "1", 250, 10*time.Second))
		return o
	}
	s1 := timed(scOpt{name: "S1-timed-first-deployment", nodes: nodes, raw: true, alpha: ticksFaults, budget: 1,
		first: []w.Event{ev("R_eds", edsKey), ev("R_eds", edsKey), ev("R_eds", edsKey)}})
	s2 := timed(scOpt{name: "S2-timed-rolling-update", nodes: nodes, alpha: ticks,
		first: []w.Event{evb("setTemplate", edsKey, "B"), ev("R_eds", edsKey), ev("R_eds", edsKey)}})
	// a canary that is validated at an arbitrary moment: the role of the replica set changes between two of its syncs
	s3 := timed(scOpt{name: "S3-timed-canary-validated", nodes: []string{"n1", "n2"}, alpha: &w.Alpha{FreeTicks: []int{10}, Kubectl: []string{"canary-validate"}}, budget: 1,
		first: []w.Event{evb("setTemplate", edsKey, "B"), ev("R_eds", edsKey), ev("R_eds", edsKey)}})
	s3.eds = append(s3.eds, w.WithCanary("1", 0, 0, "manual"))
	s2fg := timed(scOpt{name: "S2-timed-rolling-update-replica-set-deleted-in-foreground", nodes: []string{"n1", "n2"}, alpha: ticksFg, budget: 1,
		first: []w.Event{evb("setTemplate", edsKey, "B"), ev("R_eds", edsKey), ev("R_eds", edsKey)}})
	for _, o := range []scOpt{s1, s2, s3, s2fg} {
		o.mons = []func(*w.MonCtx){monC09}
		setupRun = run
		sc := mkScenario(t, o)
		start := sc.Init[0].Now
		hz := horizon
		if o.name == s2fg.name {
			hz = 13 * time.Second // the extra deviation multiplies the timed state space: a shorter look suffices for "two syncs one second apart"
			if h.Thorough() {
				hz = 16 * time.Second
			}
		}
		sc.Prune = func(s *w.State) bool { return s.Now > start+hz }
		explore(t, run, sc, 0)
	}
	requireAntecedents(run, "C09/creates", "C09/second-mutating-sync")
	worldFinish(run)
	run.Cov["evaluations"] = run.Counter("helper_calls") + run.Counter("twin_reconciles") + run.Counter("transitions")
	run.Sample(cases[len(cases)/2])
	run.Assumptions = []string{"all instants are whole seconds (the stored one-second resolution is then exact)", "timed explorations are bounded by a horizon after which states are not expanded"}
	exit(run.Finish(fmt.Sprintf("lattice of %d cases (nodes lacking a pod 0..N x elapsed time {0, I-1, I, I+1, 2I, 10I} x interval {1s,60s} x increase {1,2,50%%,100%%} x maxParallelPodCreation {1,2,250} x Active condition) through the real ManageDeployment and a Reconcile-level twin; deletion lattice: every sequence of 6 node classes (no pod, up to date, outdated available / not ready / failed-and-held, stuck) for 1..5 nodes (thorough 6) x 35 maxUnavailable / maxPodSchedulerFailure / stale-status settings; timed BFS (ticks of 1, 5, 10 s always enabled, horizon %v) of a first deployment and a rolling update with the per-sync and spacing monitors; non-trivial = distinct (creates, ramp)", len(cases), horizon)))
}
