package checks

import (
	v1 "github.com/DataDog/extendeddaemonset/api/v1alpha1"

	"testing"

	"verif/mc/h"
	w "verif/mc/world"
)

func TestC13(t *testing.T) {
	run := h.NewRun("C13", "model_checking")
	b := 2
	n := []string{"n1"}
	if h.Thorough() {
		n = []string{"n1", "n2"}
	}
	// "=" re-applies the current template unchanged: at the level of API objects that is all an edit that only
	// reorders map keys amounts to (JSON object keys have no order once decoded)
	edits := &w.Alpha{PT: true, Templates: []string{"A", "B", "C", "="}}
	// the same edits with a rejected List / Create / Delete of replica sets in the ExtendedDaemonSet reconcile
	editsFaults := &w.Alpha{Templates: []string{"A", "B"}, EDSFaults: []string{"reject:list ExtendedDaemonSetReplicaSet", "lost:create ExtendedDaemonSetReplicaSet", "reject:delete ExtendedDaemonSetReplicaSet"}}
	editsCanary := &w.Alpha{PT: true, Templates: []string{"A", "B", "C"}, Kubectl: []string{"canary-validate", "canary-fail"}}
	s2 := corpusS2(n, "1", b, edits)
	// n1 carries a resource override annotation (its hash is stamped next to the template hash on the pods)
	s2.nodeAnnots = map[string]map[string]string{"n1": {"resources.extendeddaemonset.datadoghq.com/ns.foo.main": `{"requests":{"cpu":"200m"}}`}}
	s3 := corpusS3(n, "1", "auto", b-1, editsCanary)
	s2f := corpusS2([]string{"n1"}, "1", 2, editsFaults)
	s2f.name = "S2-edits-with-faults"
	// the ExtendedDaemonSet object itself carries a (stale) templatehash annotation, e.g. a manifest rebuilt from one of
	// its replica sets or from its PodTemplate: the controller's own hash must still win everywhere
	ta := w.Tpl("A")
	s2h := corpusS2([]string{"n1"}, "1", 2, &w.Alpha{PT: true, Templates: []string{"A", "B"}})
	s2h.name = "S2-edits-object-carries-hash-annotation"
	s2h.eds = append(s2h.eds, w.WithAnnotation(v1.MD5ExtendedDaemonSetAnnotationKey, w.TemplateHash(&ta)))
	// edits that only touch the template's own metadata (a pod label): the PodTemplate must follow them too
	s2l := scOpt{name: "S2-edits-of-template-metadata", nodes: []string{"n1"}, eds: []w.EDSOpt{w.WithRolling("1", "", 0, 0)}, tpls: []string{"A", "A+label:rev=2"},
		alpha: &w.Alpha{PT: true, Templates: []string{"A", "A+label:rev=2"}}, budget: 2}
	// the user (or a chart upgrade) adds a label to the ExtendedDaemonSet object itself in the middle of a rollout
	s2o := corpusS2([]string{"n1"}, "1", 2, &w.Alpha{Templates: []string{"A", "B"}, SpecEdits: []string{"set-label:chart=v2"}})
	s2o.name = "S2-edits-and-a-label-on-the-object"
	scs := []scOpt{s2, s3, s2f, s2h, s2l, s2o}
	runWorld(t, run, scs, []func(*w.MonCtx){w.MonC13}, 0)
	requireAntecedents(run, "C13/create", "C13/delete", "C13/podtemplate")
	c13Lattice(t, run)
	exit(run.Finish("BFS over template edit sequences (A,B,C and a key-reordered A') up to the deviation budget in rolling-update and canary scenarios, all interleavings, PodTemplate reconciles included; monitor C13 on every transition (creation, deletion, PodTemplate, state invariants); plus the clean-up lattice over replica-set statuses; non-trivial = scenarios and lattice classes"))
}
