package checks

import (
	"errors"
	"fmt"
	"os"
	"os/exec"
	"sort"
	"strings"
	"sync"
	"testing"
	"testing/synctest"
	"time"

	corev1 "k8s.io/api/core/v1"
	metav1 "k8s.io/apimachinery/pkg/apis/meta/v1"
	"sigs.k8s.io/controller-runtime/pkg/client"

	v1 "github.com/DataDog/extendeddaemonset/api/v1alpha1"

	"verif/mc/h"
	w "verif/mc/world"
)

// ---- controlled scheduler over the parallel pod calls ---------------------------------------------

type pendingCall struct {
	call *w.Call
	ch   chan error
}

// gate blocks every pod create/delete until the driver releases it with an outcome.
type gate struct {
	mu      sync.Mutex
	pending []*pendingCall
}

func (g *gate) hook(c *w.Call) error {
	p := &pendingCall{call: c, ch: make(chan error)}
	g.mu.Lock()
	g.pending = append(g.pending, p)
	g.mu.Unlock()
	return <-p.ch
}

func (g *gate) take() []*pendingCall {
	g.mu.Lock()
	defer g.mu.Unlock()
	out := append([]*pendingCall{}, g.pending...)
	sort.Slice(out, func(i, j int) bool { return out[i].call.Key()+out[i].call.Name < out[j].call.Key()+out[j].call.Name })
	return out
}

func (g *gate) remove(p *pendingCall) {
	g.mu.Lock()
	defer g.mu.Unlock()
	for i, q := range g.pending {
		if q == p {
			g.pending = append(g.pending[:i], g.pending[i+1:]...)
			return
		}
	}
}

var errInjectedPod = errors.New("verif: injected pod API failure")

// schedule is one execution: the decisions taken (choice, arity) and what was injected.
type schedule struct {
	choices, arity []int
	released       []string // "<call key>=ok|fail" in release order
	failures       int
	deadlock       bool
}

// runGated runs body in a bubble goroutine under the gate, replaying prefix and taking choice 0 afterwards.
func runGated(t *testing.T, at time.Duration, prefix []int, body func(g *gate)) *schedule {
	sch := &schedule{}
	synctest.Test(t, func(t *testing.T) {
		time.Sleep(at)
		g := &gate{}
		done := make(chan struct{})
		go func() {
			defer close(done)
			body(g)
		}()
		for {
			synctest.Wait()
			select {
			case <-done:
				return
			default:
			}
			p := g.take()
			if len(p) == 0 {
				sch.deadlock = true
				return
			}
			n := len(p) * 2
			c := 0
			if len(sch.choices) < len(prefix) {
				c = prefix[len(sch.choices)]
				if c >= n {
					fmt.Println("HARNESS ERROR: schedule prefix diverged (choice out of range)")
					os.Exit(2)
				}
			}
			sch.choices = append(sch.choices, c)
			sch.arity = append(sch.arity, n)
			target := p[c/2]
			g.remove(target)
			if c%2 == 1 {
				sch.failures++
				sch.released = append(sch.released, target.call.Key()+"=fail")
				target.ch <- errInjectedPod
			} else {
				sch.released = append(sch.released, target.call.Key()+"=ok")
				target.ch <- nil
			}
		}
	})
	return sch
}

// exploreSchedules enumerates every schedule (all release orders x all failure subsets) of body.
func exploreSchedules(t *testing.T, at time.Duration, body func(g *gate) func(sch *schedule), onExec func()) int {
	n := 0
	var rec func(prefix []int)
	rec = func(prefix []int) {
		var check func(sch *schedule)
		sch := runGated(t, at, prefix, func(g *gate) { check = body(g) })
		n++
		check(sch)
		if onExec != nil {
			onExec()
		}
		for i := len(prefix); i < len(sch.choices); i++ {
			for alt := 1; alt < sch.arity[i]; alt++ {
				rec(append(append([]int{}, sch.choices[:i]...), alt))
			}
		}
	}
	rec(nil)
	return n
}

// ---- the three fan-outs through R_ers ---------------------------------------------------------------

type c17Case struct {
	Kind     string `json:"kind"` // create delete delete+create cleanup-active cleanup-canary
	K        int    `json:"batch"`
	RecentRU bool   `json:"rolling_update_started_less_than_5min_ago"`
	// UserWrite: `kubectl-eds canary fail` (a write to the replica set's status) lands between the reads of the sync
	// and its first write: the status write of the sync then meets a conflict
	UserWrite bool `json:"user_write_mid_sync,omitempty"`
}

func c17Build(c c17Case, now time.Time) (*w.State, string) {
	mu := fmt.Sprint(c.K)
	eds := w.NewEDS("ns", "foo", "A", w.WithFrequency(0), w.WithRolling(mu, "100%", 250, time.Minute))
	eds = v1.DefaultExtendedDaemonSet(eds, "auto")
	rs := mkERS("ns", "foo-a", "foo", w.Tpl("A"), now.Add(-time.Hour))
	since := time.Hour
	if c.RecentRU {
		since = time.Minute
	}
	at := metav1.NewTime(now.Add(-since))
	rs.Status.Conditions = []v1.ExtendedDaemonSetReplicaSetCondition{{Type: v1.ConditionTypeActive, Status: corev1.ConditionTrue, LastTransitionTime: at, LastUpdateTime: at}}
	eds.Status.ActiveReplicaSet = rs.Name
	objs := []client.Object{eds, rs}
	switch c.Kind {
	case "create":
		for i := 0; i < c.K; i++ {
			objs = append(objs, w.MkNode(fmt.Sprintf("n%d", i+1), nil))
		}
	case "delete":
		for i := 0; i < c.K; i++ {
			n := fmt.Sprintf("n%d", i+1)
			objs = append(objs, w.MkNode(n, nil), c03Pod(cOldAvail, "ns", rs.Name, "foo", n, rs.Spec.TemplateGeneration, now))
		}
	case "delete+create":
		// a sync that both deletes (outdated pods, within the budget) and creates (nodes without a pod): two fan-outs in one sync
		for i := 0; i < c.K; i++ {
			n := fmt.Sprintf("n%d", i+1)
			objs = append(objs, w.MkNode(n, nil))
			if i%2 == 0 {
				objs = append(objs, c03Pod(cOldAvail, "ns", rs.Name, "foo", n, rs.Spec.TemplateGeneration, now))
			}
		}
	case "cleanup-active", "cleanup-canary":
		// k pods on nodes that do not exist any more: all of them go through the clean-up fan-out
		objs = append(objs, w.MkNode("n0", nil), c03Pod(cUpAvail, "ns", rs.Name, "foo", "n0", rs.Spec.TemplateGeneration, now))
		for i := 0; i < c.K; i++ {
			objs = append(objs, c03Pod(cUpAvail, "ns", rs.Name, "foo", fmt.Sprintf("gone%d", i+1), rs.Spec.TemplateGeneration, now))
		}
		if c.Kind == "cleanup-canary" {
			rsB := mkERS("ns", "foo-b", "foo", w.Tpl("B"), now.Add(-time.Minute))
			eds.Spec.Template = w.Tpl("B")
			eds.Spec.Strategy.Canary = &v1.ExtendedDaemonSetSpecStrategyCanary{Replicas: w.IntOrStr("1"), Duration: w.Dur(10 * time.Minute)}
			eds = v1.DefaultExtendedDaemonSet(eds, "auto")
			eds.Status.Canary = &v1.ExtendedDaemonSetStatusCanary{ReplicaSet: "foo-b", Nodes: []string{"n0"}}
			objs[0] = eds
			objs = append(objs, rsB)
			st := w.NewState(0, objs...)
			return st, "foo-b"
		}
	}
	return w.NewState(0, objs...), rs.Name
}

// c17JudgeReturned: the error the sync itself reports (Reconcile's return value) must reflect failed parallel calls as
// well, whenever the status write succeeded (otherwise that error is returned) - in every role: "reflected in the error
// the sync reports AND in the condition" (the canary clean-up had been exempted until round 7; see DESIGN.md section 5).
func c17JudgeReturned(run *h.Run, c c17Case, sch *schedule, statusWritten, statusAttempted bool, returned error) {
	if sch.deadlock {
		return
	}
	if statusAttempted && !statusWritten && returned == nil {
		// nothing of this sync was stored (neither ReconcileError nor PodsCleanupDone): the error is all there is
		run.Violate(h.Violation{Signature: "C17/lost: the status write of the sync failed and the sync returned no error (the outcome of its pod operations is recorded nowhere)", Monitor: "C17/reconcile",
			Message: fmt.Sprintf("%d failed pod calls", sch.failures), Rank: int64(c.K*100 + sch.failures),
			Replay: map[string]interface{}{"level": "reconcile", "case": c, "schedule": sch.choices, "released": sch.released}})
	}
	if !statusWritten {
		return
	}
	if sch.failures > 0 && returned == nil {
		run.Violate(h.Violation{Signature: "C17/lost: failed parallel pod " + c.Kind + " calls are not reflected in the error the sync returns", Monitor: "C17/reconcile",
			Message: fmt.Sprintf("%d failures, Reconcile returned nil", sch.failures), Rank: int64(c.K*100 + sch.failures),
			Replay: map[string]interface{}{"level": "reconcile", "case": c, "schedule": sch.choices, "released": sch.released}})
	}
	if sch.failures == 0 && returned != nil {
		run.Violate(h.Violation{Signature: "C17/spurious: the sync returns an error although every parallel call succeeded", Monitor: "C17/reconcile",
			Message: returned.Error(), Replay: map[string]interface{}{"level": "reconcile", "case": c, "schedule": sch.choices}})
	}
}

func c17Judge(run *h.Run, level string, c c17Case, sch *schedule, post *v1.ExtendedDaemonSetReplicaSet, statusWritten bool) {
	viol := func(sig, msg string) {
		run.Violate(h.Violation{Signature: sig, Monitor: "C17/" + level, Message: msg, Rank: int64(c.K*100 + sch.failures),
			Replay: map[string]interface{}{"level": level, "case": c, "schedule": sch.choices, "released": sch.released}})
	}
	if sch.deadlock {
		viol("C17/deadlock: the sync blocks forever (no pod call pending, reconcile not finished)", "")
		return
	}
	if len(sch.released) < c.K {
		viol("C17/batch: the sync did not issue one parallel call per pod", fmt.Sprintf("%d calls for a batch of %d", len(sch.released), c.K))
	}
	if post == nil || !statusWritten {
		return
	}
	re := w.ERSCondTrue(post, v1.ConditionTypeReconcileError)
	cleanupFalse := false
	if cd := w.ERSCond(post, v1.ConditionTypePodsCleanupDone); cd != nil && cd.Status == corev1.ConditionFalse {
		cleanupFalse = true
	}
	isCleanup := strings.HasPrefix(c.Kind, "cleanup")
	if sch.failures > 0 {
		if isCleanup && !cleanupFalse && !re {
			viol("C17/lost: failed clean-up deletions are reflected neither in PodsCleanupDone nor in ReconcileError", fmt.Sprintf("%d failures", sch.failures))
		}
		if !isCleanup && !re {
			viol("C17/lost: failed parallel pod "+c.Kind+" not reflected in the ReconcileError condition", fmt.Sprintf("%d failures", sch.failures))
		}
	} else {
		if re {
			viol("C17/spurious: ReconcileError true although every parallel call succeeded", "")
		}
		if isCleanup && cleanupFalse {
			viol("C17/spurious: PodsCleanupDone false although every clean-up deletion succeeded", "")
		}
	}
	run.Nontrivial(fmt.Sprintf("%s:k=%d:f=%d", c.Kind, c.K, sch.failures))
}

func c17Reconcile(t *testing.T, run *h.Run, c c17Case) int {
	return exploreSchedules(t, time.Hour, func(g *gate) func(*schedule) {
		now := time.Now()
		st, rsName := c17Build(c, now)
		st.Now = time.Hour
		l := w.NewLive(st, w.Config{})
		l.API.Hook = g.hook
		l.API.ResetLog()
		if c.UserWrite {
			fired := false
			l.API.FaultFn = func(idx int, call *w.Call) string {
				if !fired && call.IsWrite() {
					fired = true
					if err, _ := w.RunKubectl(l.API.Inner(), "ns", "foo", "canary-fail"); err != nil {
						panic("c17: canary fail refused: " + err.Error())
					}
				}
				return ""
			}
		}
		rr := l.ReconcileERS("ns", rsName)
		post := l.Capture(st).ERS("ns", rsName)
		written, attempted := false, false
		for _, call := range l.API.Log {
			if call.Kind == "ExtendedDaemonSetReplicaSet" && call.Sub == "status" && call.IsWrite() {
				attempted = true
				if call.Err == nil {
					written = true
				}
			}
		}
		return func(sch *schedule) {
			if rr.Panic != nil {
				run.Violate(h.Violation{Signature: fmt.Sprintf("C17/panic: %v at %s", rr.Panic, rr.PanicSite), Monitor: "C17/reconcile", Message: "", Replay: c})
			}
			c17Judge(run, "reconcile", c, sch, post, written)
			c17JudgeReturned(run, c, sch, written, attempted, rr.Err)
		}
	}, func() { run.Count("schedules", 1) })
}

// c17Unbuildable: a batch of creations every one of which fails before any API call (the pod template carries a controller
// owner reference of its own, e.g. copied from a pod of the DaemonSet being migrated, so the replica set cannot be set as
// controller): these errors come back from the parallel creation like any other and must not be lost.
func c17Unbuildable(t *testing.T, run *h.Run, k int) {
	w.InBubble(t, time.Hour, func() {
		st, rsName := c17Build(c17Case{Kind: "create", K: k}, time.Now())
		objs := []client.Object{}
		for _, o := range st.Objs {
			if rs, ok := o.O.(*v1.ExtendedDaemonSetReplicaSet); ok {
				rs = rs.DeepCopy()
				tr := true
				rs.Spec.Template.OwnerReferences = []metav1.OwnerReference{{APIVersion: "apps/v1", Kind: "DaemonSet", Name: "legacy", UID: "uid-legacy", Controller: &tr}}
				objs = append(objs, rs)
				continue
			}
			objs = append(objs, o.O)
		}
		st2 := w.NewState(0, objs...)
		st2.Now = time.Hour
		l := w.NewLive(st2, w.Config{})
		rr := l.ReconcileERS("ns", rsName)
		run.Count("schedules", 1)
		rep := map[string]interface{}{"level": "reconcile", "case": "creation of k pods whose generation fails (template with a controller owner reference)", "batch": k}
		if rr.Panic != nil {
			run.Violate(h.Violation{Signature: fmt.Sprintf("C17/panic: %v at %s", rr.Panic, rr.PanicSite), Monitor: "C17/reconcile", Replay: rep})
			return
		}
		post := l.Capture(st2).ERS("ns", rsName)
		run.Count("antecedent:C17/unbuildable", 1)
		if rr.Err == nil {
			run.Violate(h.Violation{Signature: "C17/lost: the errors of a parallel pod creation whose pods cannot be generated are not reflected in the error the sync returns", Monitor: "C17/reconcile",
				Message: fmt.Sprintf("%d pods, Reconcile returned nil", k), Rank: int64(k), Replay: rep})
		}
		if post != nil && !w.ERSCondTrue(post, v1.ConditionTypeReconcileError) {
			run.Violate(h.Violation{Signature: "C17/lost: the errors of a parallel pod creation whose pods cannot be generated are not reflected in the ReconcileError condition", Monitor: "C17/reconcile",
				Message: fmt.Sprintf("%d pods", k), Rank: int64(k), Replay: rep})
		}
		run.Nontrivial(fmt.Sprintf("unbuildable:k=%d", k))
	})
}

func TestC17(t *testing.T) {
	run := h.NewRun("C17", "model_checking")
	maxK := 4
	if h.Thorough() {
		maxK = 6
	}
	var cases []c17Case
	for k := 1; k <= maxK; k++ {
		for _, kind := range []string{"create", "delete", "delete+create", "cleanup-active", "cleanup-canary"} {
			for _, recent := range []bool{false, true} {
				if kind != "cleanup-active" && recent {
					continue
				}
				if kind == "delete+create" && k < 2 {
					continue
				}
				cases = append(cases, c17Case{Kind: kind, K: k, RecentRU: recent})
				if kind == "cleanup-canary" && k <= 3 {
					cases = append(cases, c17Case{Kind: kind, K: k, UserWrite: true})
				}
			}
		}
	}
	for k := 1; k <= maxK; k++ {
		c17Unbuildable(t, run, k)
	}
	requireAntecedents(run, "C17/unbuildable")
	parallel(len(cases), func(i int) {
		n := c17Reconcile(t, run, cases[i])
		fmt.Printf("  %-16s k=%d recent=%-5v schedules=%d\n", cases[i].Kind, cases[i].K, cases[i].RecentRU, n)
		if c17HelperAvailable() && strings.HasPrefix(cases[i].Kind, "cleanup") {
			c17Helper(t, run, cases[i])
		}
	})
	// free-running race pass (separate binary built with -race by bin/check)
	raceRuns, raceReports := 0, 0
	if bin := os.Getenv("VERIF_RACE_BIN"); bin != "" {
		args := []string{"-test.run", "^TestRace", "-test.timeout", "0", "-test.count", "1"}
		cmd := exec.Command(bin, args...)
		cmd.Env = append(os.Environ(), "GORACE=halt_on_error=0 exitcode=66 log_path=/verif/.bin/race-report")
		out, err := cmd.CombinedOutput()
		raceRuns = strings.Count(string(out), "RACEBODY")
		_ = os.WriteFile("/verif/.bin/race-pass.log", out, 0o644)
		files, _ := os.ReadDir("/verif/.bin")
		var reports []string
		for _, f := range files {
			if strings.HasPrefix(f.Name(), "race-report") {
				b, _ := os.ReadFile("/verif/.bin/" + f.Name())
				reports = append(reports, string(b))
				_ = os.Remove("/verif/.bin/" + f.Name())
			}
		}
		all := strings.Join(reports, "\n") + string(out)
		raceReports = strings.Count(all, "WARNING: DATA RACE")
		if raceReports == 0 && strings.Contains(all, "fatal error: concurrent map") {
			_ = os.WriteFile("/verif/replays/C17-race-report.txt", []byte(all), 0o644)
			run.Violate(h.Violation{Signature: "C17/race: the runtime aborted with a concurrent map access during the free-running pass", Monitor: "C17/race-pass",
				Message: "see /verif/replays/C17-race-report.txt", Replay: map[string]interface{}{"report_file": "/verif/replays/C17-race-report.txt"}})
			err = nil
			raceRuns = max(raceRuns, 1)
		}
		if raceReports > 0 {
			// signature = the functions of /repo at the top of the two racing access stacks; a report whose
			// accesses are both in harness code is a harness bug, not a verdict
			sites := map[string]bool{}
			lines := strings.Split(all, "\n")
			for i, ln := range lines {
				tl := strings.TrimSpace(ln)
				if (strings.HasPrefix(tl, "Read at") || strings.HasPrefix(tl, "Write at") || strings.HasPrefix(tl, "Previous write at") || strings.HasPrefix(tl, "Previous read at")) && i+1 < len(lines) {
					for j := i + 1; j < len(lines) && strings.TrimSpace(lines[j]) != ""; j += 2 {
						f := strings.TrimSpace(lines[j])
						if strings.HasPrefix(f, "github.com/DataDog/extendeddaemonset/") {
							f = strings.TrimPrefix(f, "github.com/DataDog/extendeddaemonset/")
							if k := strings.Index(f, "("); k > 0 {
								f = f[:k]
							}
							for _, suf := range []string{".func1", ".func2", ".gowrap1"} {
								f = strings.TrimSuffix(f, suf)
							}
							sites[f] = true
							break
						}
						if strings.HasPrefix(f, "verif/mc/") {
							break // the access itself is in harness code
						}
					}
				}
			}
			if len(sites) == 0 {
				fmt.Println("HARNESS ERROR: the race detector reported a race between harness accesses only; see /verif/replays/C17-race-report.txt")
				_ = os.WriteFile("/verif/replays/C17-race-report.txt", []byte(all), 0o644)
				exit(2)
			}
			var ss []string
			for s := range sites {
				ss = append(ss, s)
			}
			sort.Strings(ss)
			if len(ss) > 4 {
				ss = ss[:4]
			}
			_ = os.MkdirAll("/verif/replays", 0o755)
			_ = os.WriteFile("/verif/replays/C17-race-report.txt", []byte(all), 0o644)
			run.Violate(h.Violation{Signature: "C17/race: data race reported by the race detector in " + strings.Join(ss, ", "), Monitor: "C17/race-pass",
				Message: fmt.Sprintf("%d reports, see /verif/replays/C17-race-report.txt", raceReports), Replay: map[string]interface{}{"report_file": "/verif/replays/C17-race-report.txt", "how": "bin/check C17 quick re-runs the free-running -race pass"}})
		} else if err != nil {
			fmt.Println("HARNESS ERROR: race pass failed without a race report:", err)
			fmt.Println(string(out))
			exit(2)
		}
		if raceRuns == 0 {
			fmt.Println("HARNESS ERROR: race pass ran no body")
			exit(2)
		}
	} else {
		run.Note("race pass not run (VERIF_RACE_BIN unset)")
		run.NotExhaustive("race pass skipped")
	}
	run.Cov["evaluations"] = run.Counter("schedules") + run.Counter("helper_schedules")
	run.Cov["states"] = run.Counter("schedules") + run.Counter("helper_schedules")
	run.Cov["transitions"] = run.Counter("schedules")*int64(maxK) + run.Counter("helper_schedules")
	run.Cov["traces_validated_against_impl"] = run.Counter("schedules")
	run.Cov["race_pass_bodies"] = raceRuns
	run.Cov["race_reports"] = raceReports
	run.Sample(map[string]interface{}{"case": cases[len(cases)-1], "schedule": "release order x outcome per pending pod call"})
	run.Assumptions = []string{"scheduling points are the pod API calls of the parallel goroutines (their only interaction besides WaitGroup / channel fan-in); unsynchronised memory accesses are left to the separate free-running -race pass",
		"race detection is happens-before based on the executions of the race pass, not an enumeration"}
	exit(run.Finish(fmt.Sprintf("controlled scheduler (every pod create/delete of a sync blocks on a gate; synctest.Wait detects quiescence; calls are released one at a time): ALL release orders x ALL failure subsets of the parallel create / delete / clean-up batches of size 1..%d through the real replica-set Reconcile (and the real ManageDeployment for the returned error); plus a free-running -race pass of the same bodies with batches 2..64 and of the four reconcilers and a kubelet model hammering one store; non-trivial = distinct (fan-out, batch size, failures)", maxK)))
}
