package checks

import (
	"fmt"
	"sort"
	"strings"
	"testing"
	"time"

	corev1 "k8s.io/api/core/v1"
	"sigs.k8s.io/controller-runtime/pkg/client"

	v1 "github.com/DataDog/extendeddaemonset/api/v1alpha1"

	"verif/mc/h"
	w "verif/mc/world"
)

// c11Scenario: an initial store and a script; each script phase is a list of user events followed by a
// fair run to the fixpoint (kubelet, reconciles, clock), recorded as an explicit event list.
type c11Scenario struct {
	name   string
	opt    scOpt
	phases [][]w.Event
}

// c11Driver re-runs the scenario's script (phases of user events, each followed by fair rounds to the fixpoint)
// with optional faults; a step is identified by its event text and its occurrence number in the run.
type c11Driver struct {
	t      *testing.T
	run    *h.Run
	sc     *w.Scenario
	faults []c11Fault
	mons   []func(*w.MonCtx)
	s      *w.State
	occ    map[string]int
	done   []w.Event
	// recorded on the failure-free run
	sites []c11Fault
	calls int
	// live: when set, every step runs on these same controller instances (inside one bubble) instead of on fresh
	// instances restored from the state: whatever the controllers keep in memory survives from step to step
	live *w.Live
	// late: when a fault fires while a failed canary waits to be rolled back, the next reconcile comes only 15 minutes
	// later (a fresh instance that takes its time, a retry at the end of the queue's back-off): the rollback of a failed
	// canary does not depend on the time that passed
	late bool
}

func (d *c11Driver) do(ev w.Event) {
	name := ev.String()
	n := d.occ[name]
	d.occ[name]++
	var mine []c11Fault
	for _, f := range d.faults {
		if f.Event == name && f.EventOcc == n {
			mine = append(mine, f)
		}
	}
	var out *w.StepOut
	if d.live != nil {
		d.live.API.FaultFn, d.live.API.NoStickyStop = nil, false
		if len(mine) > 0 {
			d.live.API.FaultFn, d.live.API.NoStickyStop = c11FaultFn(mine), true
		}
		out = w.Apply(d.live, d.s, ev, d.sc.Tpls)
		d.live.API.FaultFn = nil
		for _, call := range out.Log {
			if call.Fault == w.FaultStop { // the process stopped: new instances take over
				d.live.RestartControllers()
				break
			}
		}
	} else if len(mine) > 0 {
		out = w.StepWithFault(d.t, d.sc, d.s, ev, c11FaultFn(mine))
		fired := false
		for _, call := range out.Log {
			if call.Fault != "" {
				fired = true
			}
		}
		if fired {
			d.run.Count("faults_injected", 1)
		} else {
			d.run.Count("faults_not_injected", 1)
			if len(d.faults) == 1 {
				fmt.Printf("HARNESS ERROR: single fault %+v did not fire (calls: %v)\n", mine[0], w.CallStrings(out.Log))
				exit(2)
			}
		}
	} else {
		out = w.Step(d.t, d.sc, d.s, ev)
	}
	if d.faults == nil && strings.HasPrefix(ev.K, "R_") {
		seen := map[string]int{}
		for _, call := range out.Log {
			k := call.Key()
			o := seen[k]
			seen[k]++
			d.calls++
			if call.IsWrite() {
				for _, kind := range []string{w.FaultReject, w.FaultLost, w.FaultStop} {
					d.sites = append(d.sites, c11Fault{name, n, k, o, kind})
				}
			} else if h.Thorough() || call.Verb == "list" {
				d.sites = append(d.sites, c11Fault{name, n, k, o, w.FaultReject})
			}
		}
	}
	pre := d.s
	prefix := append([]w.Event{}, d.done...)
	mc := w.NewMonCtx(d.sc, d.s, out, d.run, func() (int, []w.Event) { return 0, prefix })
	mc.Extra = map[string]interface{}{"faults": d.faults}
	for _, m := range d.mons {
		m(mc)
	}
	d.done = append(d.done, ev)
	d.s = out.Next
	if d.late && len(mine) > 0 && rollbackPending(pre) {
		for _, call := range out.Log {
			if call.Fault != "" {
				d.run.Count("late_takeovers", 1)
				d.do(w.Event{K: "tick", N: 900})
				break
			}
		}
	}
}

// rollbackPending: a canary replica set is marked failed and spec.template still is its template.
func rollbackPending(s *w.State) bool {
	for _, e := range s.EDSs() {
		for _, r := range s.ERSs() {
			if r.Namespace == e.Namespace && w.ERSCondTrue(r, v1.ConditionTypeCanaryFailed) && r.Spec.TemplateGeneration == w.TemplateHash(&e.Spec.Template) && e.Status.ActiveReplicaSet != r.Name {
				return true
			}
		}
	}
	return false
}

func (d *c11Driver) round() bool {
	before := c11Normal(d.s) + fmt.Sprint(len(d.s.Pods()))
	for _, p := range d.s.Pods() {
		if p.DeletionTimestamp != nil {
			d.do(w.Event{K: "gone", A: p.Namespace + "/" + p.Name})
		} else if p.Status.Phase != corev1.PodFailed && p.Status.Phase != corev1.PodUnknown && !w.IsReady(p) && d.s.Node(w.TargetNode(p)) != nil {
			d.do(w.Event{K: "ready", A: p.Namespace + "/" + p.Name})
		}
	}
	if w.NeedsGC(d.s) {
		d.do(w.Event{K: "gc"})
	}
	for _, e := range d.s.EDSs() {
		d.do(w.Event{K: "R_eds", A: e.Namespace + "/" + e.Name})
	}
	for _, r := range d.s.ERSs() {
		d.do(w.Event{K: "R_ers", A: r.Namespace + "/" + r.Name})
	}
	for _, x := range d.s.Settings() {
		d.do(w.Event{K: "R_set", A: x.Namespace + "/" + x.Name})
	}
	changed := c11Normal(d.s)+fmt.Sprint(len(d.s.Pods())) != before
	d.do(w.Event{K: "tick", N: 10})
	return changed
}

func (d *c11Driver) drive(c c11Scenario) {
	d.s = d.sc.Init[0]
	d.occ = map[string]int{}
	for _, phase := range c.phases {
		for _, ev := range phase {
			if strings.HasSuffix(ev.A, "foo-CANARY") { // the canary pod, whatever its name is in this run
				e := d.s.EDS("ns", "foo")
				for _, p := range d.s.Pods() {
					if e.Status.Canary != nil && p.Labels[v1.ExtendedDaemonSetReplicaSetNameLabelKey] == e.Status.Canary.ReplicaSet && p.DeletionTimestamp == nil {
						ev.A = p.Namespace + "/" + p.Name
					}
				}
			}
			if ev.K == "kubectl" && strings.HasPrefix(ev.B, "canary-") {
				// the user issues a canary command once its precondition holds (a canary is running): under a fault the
				// controller may get there later than in the failure-free run
				for r := 0; r < 10; r++ {
					if e := d.s.EDS("ns", "foo"); e != nil && e.Status.Canary != nil {
						break
					}
					d.round()
				}
			}
			if applicable(d.s, ev) {
				d.do(ev)
			} else {
				d.run.Count("scripted_event_not_applicable", 1)
			}
		}
		quiet := 0
		for r := 0; r < 40 && quiet < 3; r++ {
			if d.round() {
				quiet = 0
			} else {
				quiet++
			}
		}
	}
}

// normalForm: what "the same final pods and status" compares.
func c11Normal(s *w.State) string {
	var out []string
	for _, p := range s.Pods() {
		if p.DeletionTimestamp != nil {
			continue
		}
		out = append(out, fmt.Sprintf("pod@%s hash=%.6s ready=%v phase=%s eds=%s", w.TargetNode(p), w.PodHash(p), w.IsReady(p), p.Status.Phase, p.Labels[v1.ExtendedDaemonSetNameLabelKey]))
	}
	for _, e := range s.EDSs() {
		act := ""
		if a := s.ERS(e.Namespace, e.Status.ActiveReplicaSet); a != nil {
			act = w.TemplateTag(&a.Spec.Template)
		}
		cn := "nil"
		if e.Status.Canary != nil {
			cn = fmt.Sprint(e.Status.Canary.ReplicaSet, e.Status.Canary.Nodes)
		}
		out = append(out, fmt.Sprintf("eds %s/%s tpl=%s active=%s canary=%s state=%s d/c/r/a/u=%d/%d/%d/%d/%d", e.Namespace, e.Name, w.TemplateTag(&e.Spec.Template), act, cn, e.Status.State,
			e.Status.Desired, e.Status.Current, e.Status.Ready, e.Status.Available, e.Status.UpToDate))
	}
	for _, r := range s.ERSs() {
		// the two conditions that describe failures: at the end nothing may still claim one (absent and "no failure" are the same)
		flags := ""
		if cd := w.ERSCond(r, v1.ConditionTypePodsCleanupDone); cd != nil && cd.Status == corev1.ConditionFalse {
			flags += " PodsCleanupDone=False"
		}
		if w.ERSCondTrue(r, v1.ConditionTypeReconcileError) {
			flags += " ReconcileError=True"
		}
		out = append(out, fmt.Sprintf("ers %s tpl=%s status=%s d/c/r/a=%d/%d/%d/%d%s", r.Name, w.TemplateTag(&r.Spec.Template), r.Status.Status, r.Status.Desired, r.Status.Current, r.Status.Ready, r.Status.Available, flags))
	}
	for _, x := range s.Settings() {
		out = append(out, fmt.Sprintf("setting %s %s", x.Name, x.Status.Status))
	}
	sort.Strings(out)
	return strings.Join(out, "\n")
}

type c11Fault struct {
	Event    string `json:"event"`
	EventOcc int    `json:"event_occurrence"`
	Key      string `json:"call"`
	Occ      int    `json:"call_occurrence"`
	Kind     string `json:"kind"`
}

func isPodBatchCall(c *w.Call) bool {
	return c.Kind == "Pod" && (c.Verb == "create" || c.Verb == "delete")
}

// faultFn builds the per-step fault function for the faults that target this step.
func c11FaultFn(mine []c11Fault) func(int, *w.Call) string {
	seen := map[string]int{}
	stopped := false
	var stopBatchKey string
	return func(idx int, c *w.Call) string {
		k := c.Key()
		occ := seen[k]
		seen[k]++
		if stopped {
			if isPodBatchCall(c) && stopBatchKey != "" && k < stopBatchKey {
				return "" // a member of the parallel batch that (by content order) completed before the stop
			}
			return w.FaultStop
		}
		for _, f := range mine {
			if f.Key == k && f.Occ == occ {
				if f.Kind == w.FaultStop {
					stopped = true
					if isPodBatchCall(c) {
						stopBatchKey = k
					}
				}
				return f.Kind
			}
		}
		// a stop inside a parallel batch: batch members ordered after the target fail even if they arrive first
		for _, f := range mine {
			if f.Kind == w.FaultStop && isPodBatchCall(c) && strings.HasPrefix(f.Key, c.Verb+" Pod") && k > f.Key {
				return w.FaultStop
			}
		}
		return ""
	}
}

func applicable(s *w.State, ev w.Event) bool {
	i := strings.IndexByte(ev.A, '/')
	switch ev.K {
	case "ready":
		p := s.Pod(ev.A[:i], ev.A[i+1:])
		return p != nil && p.DeletionTimestamp == nil && p.Status.Phase != corev1.PodFailed && s.Node(w.TargetNode(p)) != nil
	case "gone":
		p := s.Pod(ev.A[:i], ev.A[i+1:])
		return p != nil && p.DeletionTimestamp != nil
	case "restart", "unready", "fail":
		return s.Pod(ev.A[:i], ev.A[i+1:]) != nil
	case "delNode", "taint":
		return s.Node(ev.A) != nil
	}
	return true
}

// c11RunPersistent: the same script and faults on ONE set of controller instances kept for the whole run (a process
// stop still replaces them). "The controller keeps no decision state outside the API objects": the outcome must be
// the one of the failure-free run here as well; a run that only recovers when fresh instances take over depends on
// memory.
func c11RunPersistent(t *testing.T, run *h.Run, sc *w.Scenario, c c11Scenario, faults []c11Fault, want string) {
	var got string
	var final *w.State
	var trace []w.Event
	w.InBubble(t, sc.Init[0].Now, func() {
		d := &c11Driver{t: t, run: run, sc: sc, faults: faults, live: w.NewLive(sc.Init[0], sc.Cfg)}
		if faults == nil {
			d.faults = []c11Fault{}
		}
		d.drive(c)
		quiet := 0
		for r := 0; r < 40 && quiet < 3; r++ {
			if d.round() {
				quiet = 0
			} else {
				quiet++
			}
		}
		got, final, trace = c11Normal(d.s), d.s, d.done
	})
	run.Count("persistent_instance_runs", 1)
	if got != want {
		kinds := []string{}
		for _, f := range faults {
			kinds = append(kinds, f.Kind+" "+strings.SplitN(f.Key, " ", 3)[0]+" "+strings.SplitN(f.Key, " ", 3)[1])
		}
		run.Violate(h.Violation{Signature: "C11/memory: with the same controller instances kept after the failure the run does not reach the failure-free outcome (" + strings.Join(kinds, " + ") + ")",
			Monitor: "C11/persistent", Message: "got:\n" + got, Rank: int64(len(faults)),
			Replay: map[string]interface{}{"scenario": sc.Name, "faults": faults, "mode": "same controller instances for the whole run", "trace": fmt.Sprint(trace), "final_state": final.Describe(), "expected_final": strings.Split(want, "\n")}})
	}
}

func c11Run(t *testing.T, run *h.Run, sc *w.Scenario, c c11Scenario, faults []c11Fault, want string, mons []func(*w.MonCtx), late ...bool) {
	d := &c11Driver{t: t, run: run, sc: sc, faults: faults, mons: mons, late: len(late) > 0 && late[0]}
	if faults == nil {
		d.faults = []c11Fault{}
	}
	d.drive(c)
	r := w.Closure(t, sc, d.s, w.ClosureOpts{SkipJumps: true})
	run.Count("fault_runs", 1)
	rep := func() interface{} {
		return map[string]interface{}{"scenario": sc.Name, "faults": faults, "next_reconcile_15_minutes_after_the_fault": d.late, "trace": fmt.Sprint(d.done), "final_state": r.Final.Describe(), "expected_final": strings.Split(want, "\n")}
	}
	if !r.Converged {
		run.Violate(h.Violation{Signature: "C11/recover: after the fault, failure-free reconciliation does not converge", Monitor: "C11/closure", Message: r.Why, Rank: int64(len(faults)), Replay: rep()})
		return
	}
	got := c11Normal(r.Final)
	if d.late {
		// a quarter of an hour later a failed replica set without pods may be gone (it is kept for two minutes at least)
		got, want = c11DropLeftovers(got), c11DropLeftovers(want)
	}
	if got != want {
		kinds := []string{}
		for _, f := range faults {
			kinds = append(kinds, f.Kind+" "+strings.SplitN(f.Key, " ", 3)[0]+" "+strings.SplitN(f.Key, " ", 3)[1])
		}
		run.Violate(h.Violation{Signature: "C11/recover: final pods / status differ from the run without the failure (" + strings.Join(kinds, " + ") + ")", Monitor: "C11/closure",
			Message: "got:\n" + got, Rank: int64(len(faults)), Replay: rep()})
	}
}

func c11DropLeftovers(n string) string {
	var out []string
	for _, l := range strings.Split(n, "\n") {
		if strings.HasPrefix(l, "ers ") && strings.Contains(l, "status=unknown d/c/r/a=0/0/0/0") {
			continue
		}
		out = append(out, l)
	}
	return strings.Join(out, "\n")
}

func c11Scenarios() []c11Scenario {
	n2 := []string{"n1", "n2"}
	empty := &w.Alpha{}
	timed := func(o scOpt) scOpt {
		o.noFreq0 = true
		o.eds = append(o.eds, w.WithFrequency(10*time.Second))
		o.alpha = empty
		return o
	}
	canary := []w.EDSOpt{w.WithCanary("1", 30*time.Second, 10*time.Second, "auto"), w.WithAuto(true, 1, true, 2)}
	set := c10Setting(c10Case{Setting: "main-requests"}, "300m")
	set.Spec.NodeSelector.MatchLabels = map[string]string{}
	set.Status.Status = ""
	return []c11Scenario{
		{"first-deployment", timed(scOpt{name: "C11-first-deployment", nodes: n2, raw: true}), [][]w.Event{{}}},
		{"rolling-update", timed(scOpt{name: "C11-rolling-update", nodes: n2}), [][]w.Event{{evb("setTemplate", edsKey, "B")}}},
		{"canary-start-and-promotion", timed(scOpt{name: "C11-canary-promotion", nodes: n2, eds: canary}), [][]w.Event{{evb("setTemplate", edsKey, "B")}}},
		{"canary-validate", timed(scOpt{name: "C11-canary-validate", nodes: n2, eds: []w.EDSOpt{w.WithCanary("1", 0, 0, "manual")}}),
			[][]w.Event{{evb("setTemplate", edsKey, "B")}, {w.Event{K: "kubectl", A: edsKey, B: "canary-validate"}}}},
		{"canary-failure-and-rollback", timed(scOpt{name: "C11-canary-failure", nodes: n2, eds: []w.EDSOpt{w.WithCanary("1", 10*time.Minute, 0, "auto"), w.WithAuto(true, 1, true, 2)}}),
			[][]w.Event{{evb("setTemplate", edsKey, "B")}, {w.Event{K: "restart", A: "ns/foo-CANARY", N: 3}}}},
		// the canary is failed by the user before any canary pod exists: nothing else changes the status afterwards
		{"canary-fail-before-pods", timed(scOpt{name: "C11-canary-fail-early", nodes: n2, eds: []w.EDSOpt{w.WithCanary("1", 10*time.Minute, 0, "auto"), w.WithAuto(true, 1, true, 2)}}),
			[][]w.Event{{evb("setTemplate", edsKey, "B"), ev("R_eds", edsKey), ev("R_eds", edsKey), w.Event{K: "kubectl", A: edsKey, B: "canary-fail"}}}},
		// a paused canary is validated (the annotations must be cleared at promotion), then the next rollout starts
		{"canary-paused-validated-next-rollout", timed(scOpt{name: "C11-paused-validated", nodes: n2, eds: []w.EDSOpt{w.WithCanary("1", 0, 0, "manual")}}),
			[][]w.Event{{evb("setTemplate", edsKey, "B")}, {w.Event{K: "kubectl", A: edsKey, B: "canary-pause"}}, {w.Event{K: "kubectl", A: edsKey, B: "canary-validate"}}, {evb("setTemplate", edsKey, "C")}}},
		// migration from an apps/v1 DaemonSet whose pods still run: they are the previous version and are replaced within the
		// rolling-update limits, never doubled
		{"migration-from-daemonset", timed(scOpt{name: "C11-migration", nodes: n2, raw: true, eds: []w.EDSOpt{w.WithAnnotation(v1.ExtendedDaemonSetOldDaemonsetAnnotationKey, "old")},
			extra: []client.Object{oldDS("ns", "old", map[string]string{"app": "old"}),
				strayPod("ns", "old-n1", "n1", map[string]string{"app": "old"}, "old"), strayPod("ns", "old-n2", "n2", map[string]string{"app": "old"}, "old")}}), [][]w.Event{{}}},
		{"node-removal", timed(scOpt{name: "C11-node-removal", nodes: []string{"n1", "n2", "n3"}}), [][]w.Event{{w.Event{K: "delNode", A: "n2"}}, {w.Event{K: "addNode", A: "n9"}}}},
		{"settings-change", timed(scOpt{name: "C11-settings-change", nodes: n2, extra: []client.Object{set}}), [][]w.Event{{w.Event{K: "R_set", A: "ns/set1"}}}},
	}
}

func TestC11(t *testing.T) {
	run := h.NewRun("C11", "fault_enumeration")
	mons := []func(*w.MonCtx){w.MonC01, w.MonC03, w.MonC04, w.MonC05, w.MonC07, w.MonC08, w.MonC10, w.MonC12, w.MonC13, w.MonC14, w.MonC15}
	totalCalls := 0
	for _, c := range c11Scenarios() {
		if run.Expired() || run.HasUnknownViolation() {
			run.NotExhaustive("stopped before scenario " + c.name)
			break
		}
		setupRun = run
		sc := mkScenario(t, c.opt)
		d0 := &c11Driver{t: t, run: run, sc: sc, mons: mons}
		d0.drive(c)
		trace, sites := d0.done, d0.sites
		totalCalls += d0.calls
		r0 := w.Closure(t, sc, d0.s, w.ClosureOpts{SkipJumps: true})
		if !r0.Converged {
			fmt.Println("HARNESS ERROR: failure-free run of", c.name, "does not converge:", r0.Why)
			exit(2)
		}
		want := c11Normal(r0.Final)
		fmt.Printf("  %-30s events=%-4d fault sites=%-5d\n", c.name, len(trace), len(sites))
		run.Nontrivial("scenario:" + c.name)
		// sanity: the fault-free replay reproduces the expected final store
		c11Run(t, run, sc, c, nil, want, mons)
		c11RunPersistent(t, run, sc, c, nil, want)
		parallel(len(sites), func(i int) {
			c11Run(t, run, sc, c, []c11Fault{sites[i]}, want, mons)
			c11Run(t, run, sc, c, []c11Fault{sites[i]}, want, mons, true)
			if sites[i].Kind != w.FaultStop {
				c11RunPersistent(t, run, sc, c, []c11Fault{sites[i]}, want)
			}
			run.Nontrivial("site:" + c.name + ":" + sites[i].Kind + ":" + strings.SplitN(sites[i].Key, " ", 3)[0] + strings.SplitN(sites[i].Key, " ", 3)[1])
		})
		if h.Thorough() && len(sites) <= 400 {
			var pairs [][2]int
			for a := 0; a < len(sites); a++ {
				for b := a + 1; b < len(sites); b++ {
					if sites[a].Event != sites[b].Event || sites[a].EventOcc != sites[b].EventOcc {
						pairs = append(pairs, [2]int{a, b})
					}
				}
			}
			parallel(len(pairs), func(i int) {
				if run.Expired() {
					run.Count("pairs_skipped", 1)
					return
				}
				c11Run(t, run, sc, c, []c11Fault{sites[pairs[i][0]], sites[pairs[i][1]]}, want, mons)
				run.Count("pair_runs", 1)
			})
		}
	}
	if run.Counter("pairs_skipped") > 0 {
		run.NotExhaustive(fmt.Sprintf("%d fault pairs skipped at the deadline", run.Counter("pairs_skipped")))
	}
	run.Cov["evaluations"] = run.Counter("fault_runs") + run.Counter("persistent_instance_runs")
	run.Cov["api_calls_in_failure_free_runs"] = totalCalls
	run.Sample(c11Fault{"R_ers(ns/foo-8a9e59)", 1, "create Pod ns/", 0, "lost"})
	run.Assumptions = []string{"a fault addresses a call by (step, verb/kind/name, occurrence), never by arrival order; a stop inside a parallel batch fails the batch members that sort after the target",
		"process stop = the remaining calls of the reconcile fail and the next reconcile runs on fresh controller instances (empty back-off)"}
	exit(run.Finish("for each corpus scenario (first deployment, rolling update, canary start and timed promotion, manual validation, canary failure and rollback, canary failed before any pod exists, paused canary validated followed by the next rollout, node removal, settings change) the failure-free canonical run fixes the list of API calls; for EVERY write call x {rejected, applied-but-answer-lost, process stop} and every rejected List (thorough: also rejected Gets and pairs of faults) the run is replayed with the fault, the safety monitors C01/C03/C04/C05/C07/C08/C10/C12/C13/C14/C15 watch every step, the fair closure follows and the final pods/status must equal the failure-free ones; non-trivial = distinct (scenario, fault kind, call kind)"))
}
