package checks

import (
	"fmt"
	"testing"
	"time"

	corev1 "k8s.io/api/core/v1"
	metav1 "k8s.io/apimachinery/pkg/apis/meta/v1"
	"sigs.k8s.io/controller-runtime/pkg/client"

	v1 "github.com/DataDog/extendeddaemonset/api/v1alpha1"

	"verif/mc/h"
	w "verif/mc/world"
)

// c13Lattice: clean-up decision of the real R_eds for a leftover replica set over every combination of
// its four counters in {0,1} and Canary-Failed age in {absent, 119, 120, 121 s}.
func c13Lattice(t *testing.T, run *h.Run) {
	n := 0
	for mask := 0; mask < 16; mask++ {
		for _, failedAge := range []int{-1, 119, 120, 121} {
			for _, role := range []string{"leftover", "active", "uptodate"} {
				mask, failedAge, role := mask, failedAge, role
				w.InBubble(t, time.Hour, func() {
					now := time.Now()
					eds := w.NewEDS("ns", "foo", "B", w.WithFrequency(10*time.Second))
					eds = v1.DefaultExtendedDaemonSet(eds, "auto")
					rsA := mkERS("ns", "foo-a", "foo", w.Tpl("A"), now.Add(-2*time.Hour))
					rsB := mkERS("ns", "foo-b", "foo", w.Tpl("B"), now.Add(-time.Hour))
					rsC := mkERS("ns", "foo-c", "foo", w.Tpl("C"), now.Add(-3*time.Hour))
					eds.Status.ActiveReplicaSet = "foo-b"
					x := rsC
					switch role {
					case "active":
						eds.Status.ActiveReplicaSet = "foo-a"
						eds.Spec.Strategy.Canary = nil
						x = rsA // recorded active, but spec.template moved to B without canary: B becomes current, A may be collected only when empty
					case "uptodate":
						x = rsB
					}
					x.Status.Desired, x.Status.Current, x.Status.Ready, x.Status.Available = int32(mask&1), int32(mask>>1&1), int32(mask>>2&1), int32(mask>>3&1)
					if failedAge >= 0 {
						at := metav1.NewTime(now.Add(-time.Duration(failedAge) * time.Second))
						x.Status.Conditions = append(x.Status.Conditions, v1.ExtendedDaemonSetReplicaSetCondition{Type: v1.ConditionTypeCanaryFailed, Status: corev1.ConditionTrue, LastTransitionTime: at, LastUpdateTime: at})
					}
					st := w.NewState(0, []client.Object{eds, rsA, rsB, rsC, w.MkNode("n1", nil)}...)
					st.Now = now.Sub(w.Epoch)
					l := w.NewLive(st, w.Config{})
					l.API.ResetLog()
					l.ReconcileEDS("ns", "foo")
					deleted := false
					for _, c := range l.API.Log {
						if c.Verb == "delete" && c.Kind == "ExtendedDaemonSetReplicaSet" && c.Name == x.Name {
							deleted = true
						}
					}
					n++
					ctx := map[string]interface{}{"role": role, "counters": mask, "canaryFailedAge": failedAge}
					if deleted && role == "uptodate" {
						run.Violate(h.Violation{Signature: "C13/collect: the replica set matching spec.template was deleted", Monitor: "C13/lattice", Message: fmt.Sprint(ctx), Replay: ctx})
					}
					if deleted && mask != 0 {
						run.Violate(h.Violation{Signature: "C13/collect: a replica set that still reports pods was deleted", Monitor: "C13/lattice", Message: fmt.Sprint(ctx), Replay: ctx})
					}
					if deleted && failedAge >= 0 && failedAge < 120 {
						run.Violate(h.Violation{Signature: "C07/retention: failed replica set deleted before two minutes", Monitor: "C13/lattice", Message: fmt.Sprint(ctx), Replay: ctx})
					}
					if !deleted && role != "uptodate" && mask == 0 && (failedAge < 0 || failedAge > 120) {
						run.Count("collectable_kept", 1)
					}
					if deleted {
						run.Nontrivial(fmt.Sprintf("lattice-deleted:%s:%d", role, failedAge))
					} else {
						run.Nontrivial(fmt.Sprintf("lattice-kept:%s:%d:%d", role, mask, failedAge))
					}
				})
			}
		}
	}
	run.Count("lattice_reconciles", int64(n))
}
