package checks

import (
	"fmt"
	"testing"
	"time"

	v1 "github.com/DataDog/extendeddaemonset/api/v1alpha1"

	"verif/mc/h"
	w "verif/mc/world"
)

// failedCanary returns (failed replica set, active replica set name) when s holds a canary that is marked failed
// and not yet rolled back / collected, and the user did not also validate it.
func failedCanary(s *w.State) (*v1.ExtendedDaemonSetReplicaSet, string) {
	e := s.EDS("ns", "foo")
	if e == nil || e.Spec.Strategy.Canary == nil || e.Status.ActiveReplicaSet == "" {
		return nil, ""
	}
	up := w.UpToDateRS(s, e)
	if up == nil || up.Name == e.Status.ActiveReplicaSet || !w.ERSCondTrue(up, v1.ConditionTypeCanaryFailed) {
		return nil, ""
	}
	if v, ok := w.Annot(e, "canary-valid"); ok && v == up.Name {
		return nil, ""
	}
	if s.ERS("ns", e.Status.ActiveReplicaSet) == nil {
		return nil, ""
	}
	return up, e.Status.ActiveReplicaSet
}

func c07CheckRollback(run *h.Run, sc *w.Scenario, start *w.State, active string, variant string, r w.ClosureResult) {
	viol := func(sig, msg string) {
		run.Violate(h.Violation{Signature: sig, Monitor: "C07/closure", Message: msg, Replay: map[string]interface{}{"scenario": sc.Name, "variant": variant,
			"failed_state": start.Describe(), "final_state": r.Final.Describe(), "closure_trace": r.Trace}})
	}
	if !r.Converged {
		viol("C07/rollback: reconciliation after a failed canary does not reach a fixpoint", r.Why)
		return
	}
	e := r.Final.EDS("ns", "foo")
	a := r.Final.ERS("ns", active)
	if a == nil {
		viol("C07/rollback: the active replica set disappeared during the rollback", active)
		return
	}
	if e.Status.ActiveReplicaSet != active {
		viol("C07/rollback: status.activeReplicaSet changed although the canary had failed", fmt.Sprintf("%s -> %s", active, e.Status.ActiveReplicaSet))
	}
	if w.TemplateHash(&e.Spec.Template) != a.Spec.TemplateGeneration {
		viol("C07/rollback: spec.template was not restored to the active replica set's template", w.TemplateTag(&e.Spec.Template))
	}
	if e.Status.Canary != nil {
		viol("C07/rollback: status.canary not cleared", fmt.Sprint(e.Status.Canary.Nodes))
	}
	if sig, msg := w.CheckConverged(r.Final, "ns", "foo"); sig != "" {
		viol("C07/rollback: former canary nodes are not back on the active template: "+sig, msg)
	}
}

func TestC07(t *testing.T) {
	run := h.NewRun("C07", "fault_enumeration")
	b := 2
	nodes := []string{"n1", "n2"}
	if h.Thorough() {
		nodes = []string{"n1", "n2", "n3"}
	}
	// histories ending in a failed canary: restart storm (autoFail maxRestarts 2), kubectl-eds canary fail, while paused or not
	dev := &w.Alpha{PodDev: []string{"restart:3"}, Kubectl: []string{"canary-fail", "canary-pause"}}
	s3 := corpusS3(nodes, "1", "auto", b, dev)
	// the same with a canary duration (3 s) that elapses during the closure: a failed canary must not be promoted by time
	s3short := corpusS3(nodes, "1", "auto", b, dev)
	s3short.name = "S4-canary-short-duration"
	s3short.eds = []w.EDSOpt{w.WithCanary("1", 3*time.Second, 0, "auto"), w.WithAuto(true, 1, true, 2)}
	s3m := corpusS3(nodes, "1", "manual", b, dev)
	// the user's `canary fail` lands in the middle of a sync of the canary replica set: the mark must survive it
	s3mid := corpusS3(nodes, "1", "auto", 1, &w.Alpha{MidCmds: []string{"canary-fail"}})
	s3mid.name = "S4-canary-fail-overtakes-a-sync"
	// a pod template whose metadata carries a namespace and a generateName, and a canary template whose metadata differs
	// (no such fields, an extra label): the rollback must restore exactly the former, metadata included
	s3meta := corpusS3(nodes, "1", "auto", 1, &w.Alpha{Kubectl: []string{"canary-fail"}})
	s3meta.name = "S4-canary-template-with-namespace-metadata"
	s3meta.tpl0, s3meta.tpls = "A+metans", []string{"A+metans", "B+label:rev=2"}
	s3meta.first = []w.Event{evb("setTemplate", edsKey, "B+label:rev=2")}
	// a canary template that tolerates a taint the active template does not: the canary runs on a node that is no business of
	// the active template; after the failure that node has to end up without any daemon pod and the failed replica set
	// has to go away
	s3tol := corpusS3([]string{"n1", "n2"}, "1", "auto", 1, &w.Alpha{Kubectl: []string{"canary-fail"}, PodDev: []string{"restart:3"}})
	s3tol.name = "S4-canary-on-a-node-only-its-template-tolerates"
	s3tol.tpls = []string{"A", "B+toltaint"}
	s3tol.first = []w.Event{evb("taint", "n1", "NoSchedule"), evb("setTemplate", edsKey, "B+toltaint")}
	type fstate struct {
		sc *w.Scenario
		s  *w.State
	}
	var failedStates []fstate
	runWorld(t, run, []scOpt{s3, s3short, s3m, s3mid, s3meta, s3tol}, []func(*w.MonCtx){w.MonC07, w.MonC05}, 0, func(sc *w.Scenario, s *w.State, d int) {
		if rs, _ := failedCanary(s); rs != nil {
			if len(failedStates) < 150000 {
				failedStates = append(failedStates, fstate{sc, s})
			} else {
				run.Count("failed_states_not_kept", 1)
			}
		}
	})
	fmt.Printf("  failed-canary states: %d\n", len(failedStates))
	if len(failedStates) == 0 {
		fmt.Println("HARNESS ERROR: no failed canary state reached (vacuous)")
		exit(2)
	}
	retention := func(sc *w.Scenario, variant string, start *w.State) func(ev w.Event, log []*w.Call, rr w.ReconcileResult, l *w.Live) {
		return func(ev w.Event, log []*w.Call, rr w.ReconcileResult, l *w.Live) {
			if ev.K != "R_eds" {
				return
			}
			for _, c := range log {
				if c.Kind != "ExtendedDaemonSetReplicaSet" || c.Verb != "delete" {
					continue
				}
				for i := range l.PreERS {
					x := &l.PreERS[i]
					if x.Name != c.Name || !w.ERSCondTrue(x, v1.ConditionTypeCanaryFailed) {
						continue
					}
					run.Count("antecedent:C07/failed-rs-deleted", 1)
					fc := w.ERSCond(x, v1.ConditionTypeCanaryFailed)
					if time.Now().Before(fc.LastTransitionTime.Add(2 * time.Minute)) {
						run.Violate(h.Violation{Signature: "C07/retention: failed replica set deleted before two minutes", Monitor: "C07/closure", Message: x.Name,
							Replay: map[string]interface{}{"scenario": sc.Name, "variant": variant, "failed_state": start.Describe()}})
					}
					if x.Status.Desired+x.Status.Current+x.Status.Ready+x.Status.Available != 0 {
						run.Violate(h.Violation{Signature: "C07/retention: failed replica set deleted while it still reports pods", Monitor: "C07/closure", Message: x.Name,
							Replay: map[string]interface{}{"scenario": sc.Name, "variant": variant, "failed_state": start.Describe()}})
					}
				}
			}
		}
	}
	parallel(len(failedStates), func(i int) {
		if run.Expired() {
			run.Count("skipped_deadline", 1)
			return
		}
		f := failedStates[i]
		_, active := failedCanary(f.s)
		// (0) failure-free closure, started at once and started after the canary duration has elapsed
		r := w.Closure(t, f.sc, f.s, w.ClosureOpts{OnStep: retention(f.sc, "no fault", f.s)})
		run.Count("closures", 1)
		c07CheckRollback(run, f.sc, f.s, active, "no fault", r)
		if e := f.s.EDS("ns", "foo"); e.Spec.Strategy.Canary != nil && e.Spec.Strategy.Canary.Duration != nil && e.Spec.Strategy.Canary.Duration.Duration < time.Minute {
			d := e.Spec.Strategy.Canary.Duration.Duration + 2*time.Second
			r2 := w.Closure(t, f.sc, f.s, w.ClosureOpts{SkipJumps: true, StartDelay: d})
			run.Count("closures", 1)
			c07CheckRollback(run, f.sc, f.s, active, "no fault, first reconcile after the canary duration elapsed", r2)
		}
		// (1) every fault at every write of the rollback reconcile, incl. stop between the status and the spec write
		base := w.Step(t, f.sc, f.s, w.Event{K: "R_eds", A: edsKey})
		var writes []int
		for idx, c := range base.Log {
			if c.IsWrite() {
				writes = append(writes, idx)
			}
		}
		for _, k := range writes {
			for _, kind := range []string{w.FaultReject, w.FaultLost, w.FaultStop} {
				k, kind := k, kind
				out := w.StepWithFault(t, f.sc, f.s, w.Event{K: "R_eds", A: edsKey}, func(idx int, c *w.Call) string {
					if idx == k || (kind == w.FaultStop && idx > k) {
						return kind
					}
					return ""
				})
				variant := fmt.Sprintf("%s at %s", kind, base.Log[k].Key())
				r := w.Closure(t, f.sc, out.Next, w.ClosureOpts{SkipJumps: true})
				run.Count("fault_runs", 1)
				run.Nontrivial("fault:" + kind + ":" + base.Log[k].Verb + base.Log[k].Sub + ":" + f.sc.Name)
				c07CheckRollback(run, f.sc, f.s, active, variant, r)
			}
		}
	})
	requireAntecedents(run, "C07/failed-rs-deleted", "C07/fail-overtook-sync")
	if run.Counter("skipped_deadline") > 0 {
		run.NotExhaustive(fmt.Sprintf("%d failed states skipped at the deadline", run.Counter("skipped_deadline")))
	}
	if n := run.Counter("failed_states_not_kept"); n > 0 {
		run.NotExhaustive(fmt.Sprintf("%d failed-canary states beyond the first 150000 were not used as closure starts", n))
	}
	c13Lattice(t, run) // retention / emptiness decision at 119, 120, 121 s and all counter combinations
	run.Cov["evaluations"] = run.Counter("closures") + run.Counter("fault_runs")
	run.Cov["failed_states"] = len(failedStates)
	exit(run.Finish("BFS of canary scenarios (auto, auto with a duration that elapses, manual) with restart storms, kubectl-eds canary fail and pause as deviations; from EVERY reached state with a failed, not yet rolled back canary: the fault-free closure and, for every write of the rollback reconcile, {rejected, applied-but-answer-lost, process stop} followed by the closure; oracle: template restored, status.canary cleared, active replica set unchanged, all nodes back on the active template, failed replica set kept >= 2 min and deleted only when empty; non-trivial = distinct (fault kind, write, scenario)"))
}
