//go:build helpers

package checks

import (
	"fmt"
	"sync"
	"sync/atomic"
	"testing"
	"time"

	"github.com/go-logr/logr"
	corev1 "k8s.io/api/core/v1"
	metav1 "k8s.io/apimachinery/pkg/apis/meta/v1"

	v1 "github.com/DataDog/extendeddaemonset/api/v1alpha1"
	"github.com/DataDog/extendeddaemonset/controllers/extendeddaemonsetreplicaset/strategy"

	"verif/mc/h"
	w "verif/mc/world"
)

// c03Helper: helper-level lattice — the real strategy.ManageDeployment on a harness-built per-node map
// whose insertion order (= iteration order under the overlay) is the class sequence.
func c03Helper(t *testing.T, run *h.Run, maxN int) bool {
	cfgs := c03Configs()
	jobs := make(chan []int, 1024)
	var wg sync.WaitGroup
	var evals int64
	for wk := 0; wk < 16; wk++ {
		wg.Add(1)
		go func() {
			defer wg.Done()
			w.InBubble(t, time.Hour, func() {
				now := time.Now()
				api := w.NewAPI(nil)
				for seq := range jobs {
					for _, cfg := range cfgs {
						c03HelperOne(run, api, seq, cfg, now)
					}
					atomic.AddInt64(&evals, int64(len(cfgs)))
				}
			})
		}()
	}
	for n := 1; n <= maxN; n++ {
		if n <= 6 {
			base := c03Classes
			if n >= 5 {
				base = c03Classes - 1 // the last class (up to date, terminating) only up to 4 nodes
			}
			forEachSeq(n, base, func(seq []int) { jobs <- append([]int{}, seq...) })
			continue
		}
		// 7 nodes: the five classes that enter the budget arithmetic differently (no pod, up-to-date available,
		// outdated available, outdated unavailable, stuck)
		core := []int{cNoPod, cUpAvail, cOldAvail, cOldUnavail, cStuckUnsched}
		forEachSeq(n, len(core), func(seq []int) {
			m := make([]int, len(seq))
			for i, x := range seq {
				m[i] = core[x]
			}
			jobs <- m
		})
	}
	close(jobs)
	wg.Wait()
	run.Count("helper_calls", evals)
	return true
}

func c03HelperOne(run *h.Run, api *w.API, seq []int, cfg c03Config, now time.Time) {
	c03HelperEval(run, "C03", api, seq, cfg, now, func(deleted []bool, mu, mf int) (string, string) { return c03Oracle(seq, deleted, mu, mf) })
}

// c09DeleteHelper: the per-sync bound on update deletions of C09 on the real ManageDeployment.
func c09DeleteHelper(t *testing.T, run *h.Run, seqs [][]int) bool {
	cfgs := c03Configs()
	parallel(16, func(wk int) {
		w.InBubble(t, time.Hour, func() {
			now := time.Now()
			api := w.NewAPI(nil)
			for i := wk; i < len(seqs); i += 16 {
				for _, cfg := range cfgs {
					c03HelperEval(run, "C09", api, seqs[i], cfg, now, c09DeleteJudge)
				}
				run.Count("helper_calls", int64(len(cfgs)))
			}
		})
	})
	return true
}

func c03HelperEval(run *h.Run, prop string, api *w.API, seq []int, cfg c03Config, now time.Time, judge func(deleted []bool, mu, mf int) (string, string)) {
	eds := w.NewEDS("ns", "foo", "A", w.WithFrequency(10*time.Second), w.WithRolling(cfg.mu, "100%", 250, time.Minute))
	eds.Spec.Strategy.RollingUpdate.MaxPodSchedulerFailure = w.IntOrStr(cfg.mpsf)
	eds = v1.DefaultExtendedDaemonSet(eds, v1.ExtendedDaemonSetSpecStrategyCanaryValidationModeAuto)
	hash := "cafecafecafe"
	rs := &v1.ExtendedDaemonSetReplicaSet{ObjectMeta: metav1.ObjectMeta{Namespace: "ns", Name: "foo-rs"},
		Spec: v1.ExtendedDaemonSetReplicaSetSpec{Template: eds.Spec.Template, TemplateGeneration: hash}}
	rs.Status.Conditions = []v1.ExtendedDaemonSetReplicaSetCondition{{Type: v1.ConditionTypeActive, Status: corev1.ConditionTrue,
		LastTransitionTime: metav1.NewTime(now.Add(-time.Hour)), LastUpdateTime: metav1.NewTime(now.Add(-time.Hour))}}
	rs.Status.Desired = int32(max(0, len(seq)+cfg.stale))
	params := &strategy.Parameters{EDSName: "foo", Strategy: &eds.Spec.Strategy, Replicaset: rs, ReplicaSetStatus: "active",
		NewStatus: rs.Status.DeepCopy(), Logger: logr.Discard(),
		NodeByName: map[string]*strategy.NodeItem{}, PodByNodeName: map[*strategy.NodeItem]*corev1.Pod{}}
	items := make([]*strategy.NodeItem, len(seq))
	for i, c := range seq {
		node := fmt.Sprintf("n%d", i+1)
		it := strategy.NewNodeItem(w.MkNode(node, nil), nil)
		items[i] = it
		params.NodeByName[node] = it
		params.PodByNodeName[it] = c03Pod(c, "ns", rs.Name, "foo", node, hash, now)
	}
	res, err := strategy.ManageDeployment(api, eds, params, metav1.NewTime(now))
	if err != nil || res == nil {
		return
	}
	deleted := make([]bool, len(seq))
	for _, d := range res.PodsToDelete {
		for i, it := range items {
			if it == d {
				deleted[i] = true
			}
		}
	}
	mu := resolveStr(cfg.mu, len(seq))
	mf := resolveStr(cfg.mpsf, len(seq))
	if sig, msg := judge(deleted, mu, mf); sig != "" {
		run.Violate(h.Violation{Signature: sig, Monitor: prop + "/helper", Message: msg, Rank: int64(len(seq)),
			Replay: map[string]interface{}{"level": "ManageDeployment", "classes": c03Names(seq), "maxUnavailable": cfg.mu, "maxPodSchedulerFailure": cfg.mpsf, "stored_status_desired_offset": cfg.stale, "deleted": deleted}})
	}
	if len(res.PodsToDelete) > 0 {
		run.Nontrivial(fmt.Sprintf("helper:n=%d del=%d mu=%s", len(seq), len(res.PodsToDelete), cfg.mu))
	}
}
