//go:build helpers

package checks

import (
	"fmt"
	"testing"
	"time"

	"github.com/go-logr/logr"
	corev1 "k8s.io/api/core/v1"
	metav1 "k8s.io/apimachinery/pkg/apis/meta/v1"
	utilserrors "k8s.io/apimachinery/pkg/util/errors"

	v1 "github.com/DataDog/extendeddaemonset/api/v1alpha1"
	"github.com/DataDog/extendeddaemonset/controllers/extendeddaemonsetreplicaset/strategy"

	"verif/mc/h"
	w "verif/mc/world"
)

func c17HelperAvailable() bool { return true }

// c17Helper: the clean-up fan-out through the exported strategy functions; the returned error must hold
// exactly the injected failures (active role) and the PodsCleanupDone condition must say so (both roles).
func c17Helper(t *testing.T, run *h.Run, c c17Case) {
	exploreSchedules(t, time.Hour, func(g *gate) func(*schedule) {
		now := time.Now()
		st, rsName := c17Build(c, now)
		eds := st.EDS("ns", "foo")
		rs := st.ERS("ns", rsName)
		api := w.NewAPI(st.Objs)
		api.Hook = g.hook
		params := &strategy.Parameters{EDSName: "foo", Strategy: &eds.Spec.Strategy, Replicaset: rs, NewStatus: rs.Status.DeepCopy(), Logger: logr.Discard(),
			NodeByName: map[string]*strategy.NodeItem{}, PodByNodeName: map[*strategy.NodeItem]*corev1.Pod{}}
		it := strategy.NewNodeItem(st.Node("n0"), nil)
		params.NodeByName["n0"] = it
		for _, p := range st.Pods() {
			if w.TargetNode(p) == "n0" {
				params.PodByNodeName[it] = p
			} else {
				params.PodToCleanUp = append(params.PodToCleanUp, p)
			}
		}
		var res *strategy.Result
		var err error
		if c.Kind == "cleanup-canary" {
			params.ReplicaSetStatus = "canary"
			params.CanaryNodes = []string{"n0"}
			res, err = strategy.ManageCanaryDeployment(api, eds, params)
		} else {
			params.ReplicaSetStatus = "active"
			res, err = strategy.ManageDeployment(api, eds, params, metav1.NewTime(now))
		}
		return func(sch *schedule) {
			viol := func(sig, msg string) {
				run.Violate(h.Violation{Signature: sig, Monitor: "C17/helper", Message: msg, Rank: int64(c.K*100 + sch.failures),
					Replay: map[string]interface{}{"level": "strategy", "case": c, "schedule": sch.choices, "released": sch.released}})
			}
			run.Count("helper_schedules", 1)
			if sch.deadlock {
				viol("C17/deadlock: the strategy call blocks forever", "")
				return
			}
			if res == nil || res.NewStatus == nil {
				return
			}
			cleanupFalse := false
			for _, cd := range res.NewStatus.Conditions {
				if cd.Type == v1.ConditionTypePodsCleanupDone && cd.Status == corev1.ConditionFalse {
					cleanupFalse = true
				}
			}
			if (sch.failures > 0) != cleanupFalse {
				viol("C17/lost: PodsCleanupDone does not reflect whether clean-up deletions failed", fmt.Sprintf("failures=%d PodsCleanupDone=False:%v", sch.failures, cleanupFalse))
			}
			{
				n := 0
				if agg, ok := err.(utilserrors.Aggregate); ok {
					n = len(agg.Errors())
				} else if err != nil {
					n = 1
				}
				if n != sch.failures {
					when := "more than 5 minutes after the rolling update started"
					if c.RecentRU {
						when = "within 5 minutes of the rolling update start"
					}
					fn := "ManageDeployment"
					if c.Kind == "cleanup-canary" {
						fn, when = "ManageCanaryDeployment", "canary role"
					}
					viol("C17/lost: the error returned by "+fn+" does not hold the failed clean-up deletions ("+when+")", fmt.Sprintf("%d failures injected, returned error holds %d", sch.failures, n))
				}
			}
			run.Nontrivial(fmt.Sprintf("helper:%s:k=%d:f=%d", c.Kind, c.K, sch.failures))
		}
	}, nil)
}
