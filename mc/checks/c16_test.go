package checks

import (
	"context"
	"errors"
	"fmt"
	"reflect"
	"runtime/debug"
	"sync"
	"testing"
	"time"

	corev1 "k8s.io/api/core/v1"
	metav1 "k8s.io/apimachinery/pkg/apis/meta/v1"
	"k8s.io/apimachinery/pkg/types"
	"k8s.io/apimachinery/pkg/util/intstr"

	v1 "github.com/DataDog/extendeddaemonset/api/v1alpha1"

	"verif/mc/h"
	w "verif/mc/world"
)

func iosVals(full bool) []*intstr.IntOrString {
	mk := func(s string) *intstr.IntOrString { v := intstr.Parse(s); return &v }
	mi := func(i int32) *intstr.IntOrString { v := intstr.FromInt32(i); return &v }
	if full {
		return []*intstr.IntOrString{nil, mi(0), mi(-1), mi(1), mi(1<<31 - 1), mk("10%"), mk("150%"), mk("abc"), mk("%")}
	}
	return []*intstr.IntOrString{nil, mi(0), mi(-1), mi(1), mk("10%"), mk("abc")}
}

func i32Vals(vals ...int64) []*int32 {
	out := []*int32{nil}
	for _, v := range vals {
		x := int32(v)
		out = append(out, &x)
	}
	return out
}

func durVals(ds ...time.Duration) []*metav1.Duration {
	out := []*metav1.Duration{nil}
	for _, d := range ds {
		out = append(out, &metav1.Duration{Duration: d})
	}
	return out
}

func boolVals() []*bool {
	t, f := true, false
	return []*bool{nil, &t, &f}
}

type c16spec struct {
	spec v1.ExtendedDaemonSetSpec
	mode v1.ExtendedDaemonSetSpecStrategyCanaryValidationMode
}

func c16describe(s *v1.ExtendedDaemonSetSpec) map[string]interface{} {
	return map[string]interface{}{"strategy": s.Strategy, "templateName": s.Template.Name}
}

// refValidate: the set of documented validation errors that apply to a defaulted spec.
func refValidate(s *v1.ExtendedDaemonSetSpec) []error {
	var out []error
	c := s.Strategy.Canary
	if c == nil {
		return nil
	}
	if *c.AutoFail.Enabled && *c.AutoPause.Enabled && *c.AutoFail.MaxRestarts < *c.AutoPause.MaxRestarts {
		out = append(out, v1.ErrInvalidAutoFailRestarts)
	}
	if *c.AutoFail.Enabled && c.AutoFail.CanaryTimeout != nil && c.Duration != nil && c.AutoFail.CanaryTimeout.Duration <= c.Duration.Duration {
		out = append(out, v1.ErrInvalidCanaryTimeout)
	}
	if c.ValidationMode == v1.ExtendedDaemonSetSpecStrategyCanaryValidationModeManual {
		if c.Duration != nil {
			out = append(out, v1.ErrDurationWithManualValidationMode)
		}
		if c.NoRestartsDuration != nil {
			out = append(out, v1.ErrNoRestartsDurationWithManualValidationMode)
		}
	}
	return out
}

// checkPure runs the pure-function obligations on one spec.
func c16pure(run *h.Run, in *v1.ExtendedDaemonSetSpec, mode v1.ExtendedDaemonSetSpecStrategyCanaryValidationMode) {
	viol := func(sig, msg string) {
		run.Violate(h.Violation{Signature: sig, Monitor: "C16/pure", Message: msg, Replay: map[string]interface{}{"spec": c16describe(in), "defaultMode": mode}})
	}
	defer func() {
		if p := recover(); p != nil {
			viol(fmt.Sprintf("C16/panic: pure %v at %s", p, w.PanicSite(debug.Stack())), fmt.Sprint(p))
		}
	}()
	eds := &v1.ExtendedDaemonSet{Spec: *in.DeepCopy()}
	d1 := v1.DefaultExtendedDaemonSet(eds, mode)
	d2 := v1.DefaultExtendedDaemonSet(d1, mode)
	if !reflect.DeepEqual(d1, d2) {
		viol("C16/default: defaulting is not idempotent", "Default(Default(x)) != Default(x)")
	}
	if !v1.IsDefaultedExtendedDaemonSet(d1) {
		viol("C16/default: defaulted object not recognised as defaulted", "IsDefaulted(Default(x)) == false")
	}
	// user-set values unchanged (template.name excepted)
	ru, du := in.Strategy.RollingUpdate, d1.Spec.Strategy.RollingUpdate
	same := func(name string, a, b interface{}) {
		if !reflect.ValueOf(a).IsNil() && !reflect.DeepEqual(a, b) {
			viol("C16/default: user-set field changed: "+name, fmt.Sprintf("%v -> %v", a, b))
		}
	}
	same("maxUnavailable", ru.MaxUnavailable, du.MaxUnavailable)
	same("maxPodSchedulerFailure", ru.MaxPodSchedulerFailure, du.MaxPodSchedulerFailure)
	same("slowStartAdditiveIncrease", ru.SlowStartAdditiveIncrease, du.SlowStartAdditiveIncrease)
	same("maxParallelPodCreation", ru.MaxParallelPodCreation, du.MaxParallelPodCreation)
	same("slowStartIntervalDuration", ru.SlowStartIntervalDuration, du.SlowStartIntervalDuration)
	same("reconcileFrequency", in.Strategy.ReconcileFrequency, d1.Spec.Strategy.ReconcileFrequency)
	if d1.Spec.Template.Name != "" {
		viol("C16/default: template name not cleared", d1.Spec.Template.Name)
	}
	nonNil := func(name string, p interface{}) {
		if reflect.ValueOf(p).IsNil() {
			viol("C16/default: dereferenced field left nil: "+name, name)
		}
	}
	nonNil("maxUnavailable", du.MaxUnavailable)
	nonNil("maxPodSchedulerFailure", du.MaxPodSchedulerFailure)
	nonNil("slowStartAdditiveIncrease", du.SlowStartAdditiveIncrease)
	nonNil("maxParallelPodCreation", du.MaxParallelPodCreation)
	nonNil("slowStartIntervalDuration", du.SlowStartIntervalDuration)
	nonNil("reconcileFrequency", d1.Spec.Strategy.ReconcileFrequency)
	// an object that is recognised as defaulted is never defaulted by the reconcilers: it must already have what defaulting
	// guarantees them (the fields they dereference, a pod template without a name)
	if v1.IsDefaultedExtendedDaemonSet(eds) {
		run.Count("antecedent:C16/raw-recognised-as-defaulted", 1)
		rawRU := eds.Spec.Strategy.RollingUpdate
		for name, p := range map[string]interface{}{"maxUnavailable": rawRU.MaxUnavailable, "maxPodSchedulerFailure": rawRU.MaxPodSchedulerFailure, "slowStartAdditiveIncrease": rawRU.SlowStartAdditiveIncrease,
			"maxParallelPodCreation": rawRU.MaxParallelPodCreation, "slowStartIntervalDuration": rawRU.SlowStartIntervalDuration, "reconcileFrequency": eds.Spec.Strategy.ReconcileFrequency} {
			if reflect.ValueOf(p).IsNil() {
				viol("C16/default: an object recognised as defaulted lacks a field the reconcilers dereference: "+name, name)
			}
		}
		if eds.Spec.Template.Name != "" {
			viol("C16/default: an object recognised as defaulted still carries a pod template name (it would never be cleared)", eds.Spec.Template.Name)
		}
	}
	if (in.Strategy.Canary == nil) != (d1.Spec.Strategy.Canary == nil) {
		viol("C16/default: canary block added or removed", "")
	}
	if c, dc := in.Strategy.Canary, d1.Spec.Strategy.Canary; c != nil && dc != nil {
		same("canary.replicas", c.Replicas, dc.Replicas)
		same("canary.duration", c.Duration, dc.Duration)
		same("canary.noRestartsDuration", c.NoRestartsDuration, dc.NoRestartsDuration)
		same("canary.nodeSelector", c.NodeSelector, dc.NodeSelector)
		if c.ValidationMode != "" && c.ValidationMode != dc.ValidationMode {
			viol("C16/default: user-set field changed: canary.validationMode", "")
		}
		if !reflect.DeepEqual(c.NodeAntiAffinityKeys, dc.NodeAntiAffinityKeys) {
			viol("C16/default: user-set field changed: canary.nodeAntiAffinityKeys", "")
		}
		nonNil("canary.replicas", dc.Replicas)
		nonNil("canary.nodeSelector", dc.NodeSelector)
		nonNil("canary.autoPause", dc.AutoPause)
		nonNil("canary.autoFail", dc.AutoFail)
		if dc.AutoPause != nil {
			nonNil("canary.autoPause.enabled", dc.AutoPause.Enabled)
			nonNil("canary.autoPause.maxRestarts", dc.AutoPause.MaxRestarts)
			if c.AutoPause != nil {
				same("canary.autoPause.enabled", c.AutoPause.Enabled, dc.AutoPause.Enabled)
				same("canary.autoPause.maxRestarts", c.AutoPause.MaxRestarts, dc.AutoPause.MaxRestarts)
				same("canary.autoPause.maxSlowStartDuration", c.AutoPause.MaxSlowStartDuration, dc.AutoPause.MaxSlowStartDuration)
			}
		}
		if dc.AutoFail != nil {
			nonNil("canary.autoFail.enabled", dc.AutoFail.Enabled)
			nonNil("canary.autoFail.maxRestarts", dc.AutoFail.MaxRestarts)
			if c.AutoFail != nil {
				same("canary.autoFail.enabled", c.AutoFail.Enabled, dc.AutoFail.Enabled)
				same("canary.autoFail.maxRestarts", c.AutoFail.MaxRestarts, dc.AutoFail.MaxRestarts)
				same("canary.autoFail.maxRestartsDuration", c.AutoFail.MaxRestartsDuration, dc.AutoFail.MaxRestartsDuration)
				same("canary.autoFail.canaryTimeout", c.AutoFail.CanaryTimeout, dc.AutoFail.CanaryTimeout)
			}
		}
		if dc.ValidationMode == v1.ExtendedDaemonSetSpecStrategyCanaryValidationModeAuto {
			nonNil("canary.duration(auto)", dc.Duration)
		}
	}
	// validation
	want := refValidate(&d1.Spec)
	got := v1.ValidateExtendedDaemonSetSpec(&d1.Spec)
	if len(want) == 0 && got != nil {
		viol("C16/validate: rejects a spec none of the documented rules rejects", got.Error())
	}
	if len(want) > 0 {
		ok := false
		for _, e := range want {
			if errors.Is(got, e) {
				ok = true
			}
		}
		if !ok {
			viol(fmt.Sprintf("C16/validate: documented rejection missing: %v", want[0]), fmt.Sprintf("got %v want one of %v", got, want))
		}
		run.Nontrivial("validate:" + want[0].Error())
	}
}

// canarySpecs enumerates the canary group. level 0: small (quick reconcile), 1: medium (quick pure,
// thorough reconcile), 2: the full boundary lattice (thorough pure).
func canarySpecs(level int) []*v1.ExtendedDaemonSetSpecStrategyCanary {
	out := []*v1.ExtendedDaemonSetSpecStrategyCanary{nil}
	var replicas []*intstr.IntOrString
	var durs, nors []*metav1.Duration
	var pauses []*v1.ExtendedDaemonSetSpecStrategyCanaryAutoPause
	var fails []*v1.ExtendedDaemonSetSpecStrategyCanaryAutoFail
	pauses = append(pauses, nil)
	fails = append(fails, nil)
	mk := func(s string) *intstr.IntOrString { v := intstr.Parse(s); return &v }
	switch level {
	case 2, 1:
		replicas = iosVals(true)
		durs = durVals(0, -time.Second, 10*time.Minute)
		nors = durVals(0, -time.Second, 10*time.Minute)
		mrs := i32Vals(0, -1, 2, 5)
		cts := durVals(0, time.Minute, 15*time.Minute)
		sds := durVals(0, time.Minute)
		if level == 1 {
			sds = durVals(time.Minute)
			replicas = []*intstr.IntOrString{nil, mk("1"), mk("50%"), mk("abc")}
			durs = durVals(0, 10*time.Minute)
			nors = durVals(10 * time.Minute)
			mrs = i32Vals(0, -1, 2, 5)
			cts = durVals(time.Minute, 15*time.Minute)
		}
		for _, en := range boolVals() {
			for _, mr := range mrs {
				for _, ss := range sds {
					pauses = append(pauses, &v1.ExtendedDaemonSetSpecStrategyCanaryAutoPause{Enabled: en, MaxRestarts: mr, MaxSlowStartDuration: ss})
				}
			}
		}
		for _, en := range boolVals() {
			for _, mr := range mrs {
				for _, md := range sds {
					for _, ct := range cts {
						fails = append(fails, &v1.ExtendedDaemonSetSpecStrategyCanaryAutoFail{Enabled: en, MaxRestarts: mr, MaxRestartsDuration: md, CanaryTimeout: ct})
					}
				}
			}
		}
	default:
		replicas = []*intstr.IntOrString{nil, mk("1"), mk("50%"), mk("abc")}
		durs = durVals(0, 10*time.Minute)
		nors = durVals(10 * time.Minute)
		t, f := true, false
		i0, i2, i5 := int32(0), int32(2), int32(5)
		pauses = append(pauses, &v1.ExtendedDaemonSetSpecStrategyCanaryAutoPause{Enabled: &t, MaxRestarts: &i2},
			&v1.ExtendedDaemonSetSpecStrategyCanaryAutoPause{Enabled: &t, MaxRestarts: &i0, MaxSlowStartDuration: &metav1.Duration{Duration: time.Minute}},
			&v1.ExtendedDaemonSetSpecStrategyCanaryAutoPause{Enabled: &f})
		fails = append(fails, &v1.ExtendedDaemonSetSpecStrategyCanaryAutoFail{Enabled: &t, MaxRestarts: &i5},
			&v1.ExtendedDaemonSetSpecStrategyCanaryAutoFail{Enabled: &t, MaxRestarts: &i0, MaxRestartsDuration: &metav1.Duration{Duration: time.Minute}, CanaryTimeout: &metav1.Duration{Duration: 15 * time.Minute}},
			&v1.ExtendedDaemonSetSpecStrategyCanaryAutoFail{Enabled: &t, MaxRestarts: &i2, CanaryTimeout: &metav1.Duration{Duration: time.Minute}},
			&v1.ExtendedDaemonSetSpecStrategyCanaryAutoFail{Enabled: &f})
	}
	badSel := &metav1.LabelSelector{MatchExpressions: []metav1.LabelSelectorRequirement{{Key: "k", Operator: "Bogus", Values: []string{"a"}}}}
	sels := []*metav1.LabelSelector{nil, {}, badSel}
	keys := [][]string{nil, {"zone"}}
	for _, r := range replicas {
		for _, d := range durs {
			for _, nr := range nors {
				for _, m := range []v1.ExtendedDaemonSetSpecStrategyCanaryValidationMode{"", "auto", "manual"} {
					for _, ap := range pauses {
						for _, af := range fails {
							for _, sel := range sels {
								for _, k := range keys {
									out = append(out, &v1.ExtendedDaemonSetSpecStrategyCanary{Replicas: r, Duration: d, NoRestartsDuration: nr, ValidationMode: m,
										AutoPause: ap, AutoFail: af, NodeSelector: sel, NodeAntiAffinityKeys: k})
								}
							}
						}
					}
				}
			}
		}
	}
	return out
}

func rollingSpecs(full bool) []v1.ExtendedDaemonSetSpecStrategy {
	var out []v1.ExtendedDaemonSetSpecStrategy
	ios := iosVals(full)
	par := i32Vals(0, -1, 1)
	ivs := durVals(0, time.Minute)
	if full {
		par = i32Vals(0, -1, 1, 1<<31-1)
		ivs = durVals(0, -time.Second, 1, time.Minute)
	}
	for _, mu := range ios {
		for _, mf := range ios {
			for _, inc := range ios {
				for _, mp := range par {
					for _, iv := range ivs {
						for _, rf := range ivs {
							out = append(out, v1.ExtendedDaemonSetSpecStrategy{ReconcileFrequency: rf, RollingUpdate: v1.ExtendedDaemonSetSpecStrategyRollingUpdate{
								MaxUnavailable: mu, MaxPodSchedulerFailure: mf, SlowStartAdditiveIncrease: inc, MaxParallelPodCreation: mp, SlowStartIntervalDuration: iv}})
						}
					}
				}
			}
		}
	}
	return out
}

// c16reconcile drives both reconcilers through a first deployment, a canary with a restarting pod and
// a later moment, with the given spec; any panic is a violation.
// c16lateEdit: the object is first deployed with an unobjectionable strategy; then the user replaces ONLY spec.strategy by
// the lattice value (the template and hence the replica set stay). Validation is not a one-time gate: a reconcile of the
// edited object reports an error exactly when validation rejects the (defaulted) spec.
func c16lateEdit(t *testing.T, run *h.Run, spec *v1.ExtendedDaemonSetSpec, mode v1.ExtendedDaemonSetSpecStrategyCanaryValidationMode) {
	eds := w.MkEDS("ns", "foo", w.Tpl("A"))
	s := w.NewState(0, append(w.Nodes("n1"), eds)...)
	w.InBubble(t, 0, func() {
		l := w.NewLive(s, w.Config{DefaultValidationMode: mode})
		ctx := context.Background()
		in := l.API.Inner()
		for i := 0; i < 4; i++ {
			l.ReconcileEDS("ns", "foo")
			erss := &v1.ExtendedDaemonSetReplicaSetList{}
			_ = in.List(ctx, erss)
			for _, r := range erss.Items {
				l.ReconcileERS(r.Namespace, r.Name)
			}
			time.Sleep(11 * time.Second)
		}
		e := &v1.ExtendedDaemonSet{}
		if err := in.Get(ctx, types.NamespacedName{Namespace: "ns", Name: "foo"}, e); err != nil {
			return
		}
		e.Spec.Strategy = *spec.Strategy.DeepCopy()
		_ = in.Update(ctx, e)
		var last w.ReconcileResult
		for i := 0; i < 3; i++ { // defaulting, then the reconciles of the defaulted object
			last = l.ReconcileEDS("ns", "foo")
			if last.Panic != nil {
				run.Violate(h.Violation{Signature: fmt.Sprintf("C16/panic: R_eds(strategy edited later) %v at %s", last.Panic, last.PanicSite), Monitor: "C16/reconcile",
					Message: fmt.Sprint(last.Panic), Replay: map[string]interface{}{"spec": c16describe(spec), "defaultMode": mode, "history": "deployed with the default strategy, then spec.strategy replaced"}})
				return
			}
		}
		_ = in.Get(ctx, types.NamespacedName{Namespace: "ns", Name: "foo"}, e)
		want := v1.ValidateExtendedDaemonSetSpec(&e.Spec)
		run.Count("late_edits", 1)
		if want != nil {
			run.Count("antecedent:C16/late-edit-invalid", 1)
		}
		if (want != nil) != (last.Err != nil) && v1.IsDefaultedExtendedDaemonSet(e) {
			run.Violate(h.Violation{Signature: "C16/validate-late: after a strategy-only edit of a deployed object the reconcile and validation disagree (validation is skipped or spurious)", Monitor: "C16/reconcile",
				Message: fmt.Sprintf("validation: %v; reconcile: %v", want, last.Err), Replay: map[string]interface{}{"spec": c16describe(spec), "defaultMode": mode, "history": "deployed with the default strategy, then spec.strategy replaced"}})
		}
	})
}

func c16reconcile(t *testing.T, run *h.Run, spec *v1.ExtendedDaemonSetSpec, mode v1.ExtendedDaemonSetSpecStrategyCanaryValidationMode) {
	c16lateEdit(t, run, spec, mode)
	c16reconcileVariant(t, run, spec, mode, false)
	if spec.Strategy.Canary != nil {
		c16reconcileVariant(t, run, spec, mode, true)
	}
}

func c16reconcileVariant(t *testing.T, run *h.Run, spec *v1.ExtendedDaemonSetSpec, mode v1.ExtendedDaemonSetSpecStrategyCanaryValidationMode, dropCanary bool) {
	eds := w.MkEDS("ns", "foo", w.Tpl("A"))
	eds.Spec.Strategy = *spec.Strategy.DeepCopy()
	eds.Spec.Template.Name = spec.Template.Name
	objs := w.Nodes("n1:zone=a", "n2:zone=b")
	objs = append(objs, eds)
	s := w.NewState(0, objs...)
	sc := &w.Scenario{Name: "C16", Cfg: w.Config{DefaultValidationMode: mode}, Tpls: w.TplMap("A", "B")}
	steps := 0
	w.InBubble(t, 0, func() {
		l := w.NewLive(s, sc.Cfg)
		ctx := context.Background()
		in := l.API.Inner()
		report := func(what string, rr w.ReconcileResult) {
			steps++
			if rr.Panic != nil {
				run.Violate(h.Violation{Signature: fmt.Sprintf("C16/panic: %s %v at %s", what, rr.Panic, rr.PanicSite), Monitor: "C16/reconcile",
					Message: fmt.Sprintf("%s panicked: %v", what, rr.Panic), Replay: map[string]interface{}{"spec": c16describe(spec), "defaultMode": mode}})
			}
		}
		all := func() {
			report("R_eds", l.ReconcileEDS("ns", "foo"))
			erss := &v1.ExtendedDaemonSetReplicaSetList{}
			_ = in.List(ctx, erss)
			for _, r := range erss.Items {
				report("R_ers", l.ReconcileERS(r.Namespace, r.Name))
			}
			pods := &corev1.PodList{}
			_ = in.List(ctx, pods)
			for i := range pods.Items {
				p := &pods.Items[i]
				if p.DeletionTimestamp != nil {
					w.RemovePod(ctx, in, p)
				} else if !w.IsReady(p) {
					w.MakeReady(ctx, in, p)
				}
			}
		}
		for i := 0; i < 4; i++ {
			all()
			time.Sleep(11 * time.Second)
		}
		e := &v1.ExtendedDaemonSet{}
		if err := in.Get(ctx, types.NamespacedName{Namespace: "ns", Name: "foo"}, e); err == nil {
			e.Spec.Template = w.Tpl("B")
			_ = in.Update(ctx, e)
		}
		for i := 0; i < 3; i++ {
			all()
			time.Sleep(11 * time.Second)
		}
		if dropCanary {
			// the user removes spec.strategy.canary while the canary is in progress (the remaining spec is complete and
			// defaulted); the replica sets are reconciled BEFORE the ExtendedDaemonSet controller has seen the edit
			if err := in.Get(ctx, types.NamespacedName{Namespace: "ns", Name: "foo"}, e); err == nil && e.Spec.Strategy.Canary != nil {
				e.Spec.Strategy.Canary = nil
				_ = in.Update(ctx, e)
				erss := &v1.ExtendedDaemonSetReplicaSetList{}
				_ = in.List(ctx, erss)
				for _, r := range erss.Items {
					report("R_ers(spec.strategy.canary removed during the canary)", l.ReconcileERS(r.Namespace, r.Name))
				}
				run.Count("antecedent:C16/canary-removed-mid-canary", 1)
			}
			all()
			all()
			return
		}
		// a restart on every new-template pod, then a later look
		pods := &corev1.PodList{}
		_ = in.List(ctx, pods)
		for i := range pods.Items {
			p := &pods.Items[i]
			if w.TemplateTag(&corev1.PodTemplateSpec{Spec: p.Spec}) == "B" && p.DeletionTimestamp == nil {
				out := w.Apply(l, s, w.Event{K: "restart", A: p.Namespace + "/" + p.Name, N: 3}, sc.Tpls)
				_ = out
			}
		}
		all()
		time.Sleep(61 * time.Second)
		all()
		all()
		// the user replaces the object by the original (undefaulted) manifest; the replica sets are reconciled BEFORE the
		// ExtendedDaemonSet controller has defaulted it again
		if err := in.Get(ctx, types.NamespacedName{Namespace: "ns", Name: "foo"}, e); err == nil {
			e.Spec.Strategy = *spec.Strategy.DeepCopy()
			_ = in.Update(ctx, e)
			erss := &v1.ExtendedDaemonSetReplicaSetList{}
			_ = in.List(ctx, erss)
			for _, r := range erss.Items {
				report("R_ers(parent replaced by its undefaulted manifest)", l.ReconcileERS(r.Namespace, r.Name))
			}
			time.Sleep(11 * time.Second)
			for _, r := range erss.Items {
				report("R_ers(parent replaced by its undefaulted manifest)", l.ReconcileERS(r.Namespace, r.Name))
			}
			all()
		}
	})
	run.Count("reconciles", int64(steps))
}

func TestC16(t *testing.T) {
	run := h.NewRun("C16", "model_checking")
	full := h.Thorough()
	modes := []v1.ExtendedDaemonSetSpecStrategyCanaryValidationMode{"auto", "manual"}
	canaries := canarySpecs(1) // pure functions: medium canary product in quick, full boundary lattice in thorough
	if full {
		canaries = canarySpecs(2)
	}
	rollings := rollingSpecs(true)
	var evals int64
	// --- pure functions: full product of each group (the groups are defaulted independently), both modes
	var wg sync.WaitGroup
	work := make(chan func(), 1024)
	for i := 0; i < 16; i++ {
		wg.Add(1)
		go func() {
			defer wg.Done()
			for f := range work {
				f()
			}
		}()
	}
	chunk := 4096
	for _, m := range modes {
		for lo := 0; lo < len(canaries); lo += chunk {
			lo, hi, m := lo, min(lo+chunk, len(canaries)), m
			work <- func() {
				for _, c := range canaries[lo:hi] {
					for _, tn := range []string{"", "x"} {
						sp := &v1.ExtendedDaemonSetSpec{}
						sp.Strategy.Canary = c
						sp.Template.Name = tn
						c16pure(run, sp, m)
					}
				}
				run.Count("pure_evaluations", int64(2*(hi-lo)))
				// the same canary blocks next to a rolling-update block in which the user wrote out every field, with and
				// without reconcileFrequency: such an object may be "recognised as defaulted" without ever having been defaulted
				one, pc := intstr.FromInt(1), int32(250)
				for ci, c := range canaries[lo:hi] {
					if full && (lo+ci)%32 != 0 {
						continue // the thorough canary lattice is 50 times larger: every 32nd block gets the cross product
					}
					for _, tn := range []string{"", "x"} {
						for _, rf := range []*metav1.Duration{nil, {Duration: 10 * time.Second}} {
							sp := &v1.ExtendedDaemonSetSpec{}
							sp.Strategy.Canary = c
							sp.Strategy.ReconcileFrequency = rf
							sp.Strategy.RollingUpdate = v1.ExtendedDaemonSetSpecStrategyRollingUpdate{MaxUnavailable: &one, MaxPodSchedulerFailure: &one, SlowStartAdditiveIncrease: &one,
								MaxParallelPodCreation: &pc, SlowStartIntervalDuration: &metav1.Duration{Duration: time.Minute}}
							sp.Template.Name = tn
							c16pure(run, sp, m)
						}
					}
				}
				run.Count("pure_evaluations", int64(4*(hi-lo)))
			}
		}
		for lo := 0; lo < len(rollings); lo += chunk {
			lo, hi, m := lo, min(lo+chunk, len(rollings)), m
			work <- func() {
				for i := range rollings[lo:hi] {
					sp := &v1.ExtendedDaemonSetSpec{Strategy: rollings[lo+i]}
					c16pure(run, sp, m)
				}
				run.Count("pure_evaluations", int64(hi-lo))
			}
		}
	}
	// --- reconcile level: each group against a fixed other group
	rcan := canarySpecs(0)
	if full {
		rcan = nil
		for _, c := range canarySpecs(1) {
			if c == nil || (c.NodeAntiAffinityKeys == nil && (c.NodeSelector == nil || len(c.NodeSelector.MatchExpressions) > 0)) {
				rcan = append(rcan, c)
			}
		}
	}
	rrol := rollingSpecs(full)
	mk := func(s string) *intstr.IntOrString { v := intstr.Parse(s); return &v }
	goodCanary := &v1.ExtendedDaemonSetSpecStrategyCanary{Replicas: mk("1"), Duration: &metav1.Duration{Duration: 30 * time.Second}}
	for _, m := range modes {
		for i := range rcan {
			c, m := rcan[i], m
			work <- func() {
				sp := &v1.ExtendedDaemonSetSpec{}
				sp.Strategy.Canary = c
				c16reconcile(t, run, sp, m)
				run.Count("reconcile_specs", 1)
			}
		}
	}
	for i := range rrol {
		for _, withCanary := range []bool{false, true} {
			st, wc := rrol[i], withCanary
			work <- func() {
				sp := &v1.ExtendedDaemonSetSpec{Strategy: st}
				if wc {
					sp.Strategy.Canary = goodCanary.DeepCopy()
				}
				c16reconcile(t, run, sp, "auto")
				run.Count("reconcile_specs", 1)
			}
		}
	}
	close(work)
	wg.Wait()
	requireAntecedents(run, "C16/late-edit-invalid")
	evals = run.Counter("pure_evaluations") + run.Counter("reconcile_specs") + run.Counter("late_edits")
	run.Cov["evaluations"] = evals
	run.Cov["states"] = evals
	run.Cov["transitions"] = run.Counter("pure_evaluations")*4 + run.Counter("reconciles")
	run.Cov["traces_validated_against_impl"] = run.Counter("reconcile_specs")
	run.Nontrivial("canary-group")
	run.Nontrivial("rolling-group")
	for i := 0; i < 3; i++ {
		run.Sample(c16describe(&v1.ExtendedDaemonSetSpec{Strategy: rrol[(i*977)%len(rrol)]}))
	}
	run.Assumptions = []string{"the CRD schema accepts every lattice value (checked against config/crd/bases/v1: no minimum/enum beyond validationMode)",
		"coverage-guided fuzzing clause of the property is outside this technique family and not done",
		"kubelet model always sets status.startTime before container statuses"}
	exit(run.Finish("boundary lattice of every strategy field: pure Default/IsDefaulted/Validate on the full product of each field group x both controller default modes; both real Reconcile functions driven through deployment, canary, restart and +61s on each group (reduced value sets in quick, full in thorough) against a fixed other group; non-trivial classes = validation rules that fire, field groups"))
}
