package checks

import (
	"fmt"
	"testing"
	"time"

	corev1 "k8s.io/api/core/v1"
	metav1 "k8s.io/apimachinery/pkg/apis/meta/v1"
	"sigs.k8s.io/controller-runtime/pkg/client"

	v1 "github.com/DataDog/extendeddaemonset/api/v1alpha1"

	"verif/mc/h"
	w "verif/mc/world"
)

type c15Node struct {
	Zone     string `json:"zone"`
	Pool     bool   `json:"pool_x"`
	Tainted  bool   `json:"tainted"`
	Restarts int    `json:"restarts"`
}

type c15Case struct {
	Nodes    []c15Node `json:"nodes"`
	Replicas string    `json:"replicas"`
	Selector bool      `json:"canary_selector_pool_x"`
	// SelShape: how "pool = x" is written: "" matchLabels; "in2" pool In (x, y); "exists+notin2" pool Exists and
	// pool NotIn (a, b) - all equivalent over the node alphabet (the label is x or absent)
	SelShape string `json:"selector_shape,omitempty"`
	Keys     bool   `json:"antiaffinity_zone"`
	Prev     string `json:"previous_list"` // empty valid invalid ghost
	Paused   string `json:"paused"`        // "", annotation, condition
}

func c15Build(c c15Case, now time.Time) *w.State {
	eds := w.NewEDS("ns", "foo", "B", w.WithFrequency(10*time.Second), w.WithCanary(c.Replicas, 10*time.Minute, 0, "auto"))
	if c.Selector {
		eds.Spec.Strategy.Canary.NodeSelector = &metav1.LabelSelector{MatchLabels: map[string]string{"pool": "x"}}
		switch c.SelShape {
		case "in2":
			eds.Spec.Strategy.Canary.NodeSelector = &metav1.LabelSelector{MatchExpressions: []metav1.LabelSelectorRequirement{{Key: "pool", Operator: metav1.LabelSelectorOpIn, Values: []string{"x", "y"}}}}
		case "in-empty": // accepted by the CRD schema, not a valid requirement
			eds.Spec.Strategy.Canary.NodeSelector = &metav1.LabelSelector{MatchExpressions: []metav1.LabelSelectorRequirement{{Key: "pool", Operator: metav1.LabelSelectorOpIn}}}
		case "badop":
			eds.Spec.Strategy.Canary.NodeSelector = &metav1.LabelSelector{MatchExpressions: []metav1.LabelSelectorRequirement{{Key: "pool", Operator: "Equals", Values: []string{"x"}}}}
		case "exists+notin2":
			eds.Spec.Strategy.Canary.NodeSelector = &metav1.LabelSelector{MatchExpressions: []metav1.LabelSelectorRequirement{{Key: "pool", Operator: metav1.LabelSelectorOpExists},
				{Key: "pool", Operator: metav1.LabelSelectorOpNotIn, Values: []string{"a", "b"}}}}
		}
	}
	if c.Keys {
		eds.Spec.Strategy.Canary.NodeAntiAffinityKeys = []string{"zone"}
	}
	eds = v1.DefaultExtendedDaemonSet(eds, "auto")
	rsA := mkERS("ns", "foo-a", "foo", w.Tpl("A"), now.Add(-time.Hour))
	rsB := mkERS("ns", "foo-b", "foo", w.Tpl("B"), now.Add(-time.Minute))
	objs := []client.Object{eds, rsA, rsB}
	elig := int32(0)
	firstValid, firstInvalid := "", ""
	for i, nd := range c.Nodes {
		name := fmt.Sprintf("n%d", i+1)
		lbl := map[string]string{"zone": nd.Zone}
		if nd.Pool {
			lbl["pool"] = "x"
		}
		n := w.MkNode(name, lbl)
		if nd.Tainted {
			n.Spec.Taints = []corev1.Taint{{Key: "dedicated", Value: "x", Effect: corev1.TaintEffectNoSchedule}}
			if nd.Zone == "b" {
				// a cordoned node that also carries the dedicated taint: a tolerated taint listed before the untolerated one
				n.Spec.Taints = []corev1.Taint{{Key: "node.kubernetes.io/unschedulable", Effect: corev1.TaintEffectNoSchedule}, {Key: "dedicated", Value: "x", Effect: corev1.TaintEffectNoSchedule}}
			}
		} else {
			elig++
		}
		objs = append(objs, n)
		ok := !nd.Tainted && (!c.Selector || nd.Pool)
		if ok && firstValid == "" {
			firstValid = name
		}
		if !ok && firstInvalid == "" {
			firstInvalid = name
		}
		if !nd.Tainted {
			p := c03Pod(cUpAvail, "ns", "foo-a", "foo", name, rsA.Spec.TemplateGeneration, now)
			p.Status.ContainerStatuses = []corev1.ContainerStatus{{Name: "main", RestartCount: int32(nd.Restarts)}}
			objs = append(objs, p)
		}
	}
	rsA.Status = v1.ExtendedDaemonSetReplicaSetStatus{Status: "active", Desired: elig, Current: elig, Ready: elig, Available: elig}
	eds.Status = v1.ExtendedDaemonSetStatus{ActiveReplicaSet: "foo-a", Desired: elig, Current: elig, Ready: elig, Available: elig, UpToDate: elig, State: v1.ExtendedDaemonSetStatusStateCanary}
	var prev []string
	switch c.Prev {
	case "valid":
		if firstValid != "" {
			prev = []string{firstValid}
		}
	case "invalid":
		if firstInvalid != "" {
			prev = []string{firstInvalid}
		}
	case "ghost":
		prev = []string{"ghost"}
	case "all-but-first":
		for i := 1; i < len(c.Nodes); i++ {
			prev = append(prev, fmt.Sprintf("n%d", i+1))
		}
	case "all": // e.g. replicas were lowered during the canary: the stored list is longer than what is asked for now
		for i := range c.Nodes {
			prev = append(prev, fmt.Sprintf("n%d", i+1))
		}
	}
	if c.Prev != "empty" {
		eds.Status.Canary = &v1.ExtendedDaemonSetStatusCanary{ReplicaSet: "foo-b", Nodes: prev}
		rsB.Status = v1.ExtendedDaemonSetReplicaSetStatus{Status: "canary", Desired: int32(len(prev))}
	}
	switch c.Paused {
	case "annotation":
		eds.Annotations = map[string]string{v1.ExtendedDaemonSetCanaryPausedAnnotationKey: "true"}
	case "condition":
		at := metav1.NewTime(now.Add(-20 * time.Second))
		rsB.Status.Conditions = append(rsB.Status.Conditions, v1.ExtendedDaemonSetReplicaSetCondition{Type: v1.ConditionTypeCanaryPaused, Status: corev1.ConditionTrue, Reason: "CrashLoopBackOff", LastTransitionTime: at, LastUpdateTime: at})
	}
	st := w.NewState(0, objs...)
	st.Now = now.Sub(w.Epoch)
	return st
}

func c15Eval(t *testing.T, run *h.Run, c c15Case) {
	w.InBubble(t, time.Hour, func() {
		pre := c15Build(c, time.Now())
		l := w.NewLive(pre, w.Config{})
		rr := l.ReconcileEDS("ns", "foo")
		run.Count("reconciles", 1)
		if rr.Panic != nil {
			run.Violate(h.Violation{Signature: fmt.Sprintf("C15/panic: %v at %s", rr.Panic, rr.PanicSite), Monitor: "C15/lattice", Message: fmt.Sprint(rr.Panic), Replay: c})
			return
		}
		post := l.Capture(pre)
		issues, active := w.CheckCanaryNodes(pre, post, rr.Err, "ns", "foo")
		if active {
			run.Count("antecedent:C15/canary-active", 1)
			e := post.EDS("ns", "foo")
			run.Nontrivial(fmt.Sprintf("n=%d r=%s sel=%v keys=%v prev=%s got=%d err=%v", len(c.Nodes), c.Replicas, c.Selector, c.Keys, c.Prev, len(e.Status.Canary.Nodes), rr.Err != nil))
		}
		for _, is := range issues {
			run.Violate(h.Violation{Signature: is.Sig, Monitor: "C15/lattice", Message: is.Msg, Rank: int64(len(c.Nodes)), Replay: c})
		}
	})
}

func TestC15(t *testing.T) {
	run := h.NewRun("C15", "model_checking")
	if rp := replayFile(); rp != nil && string(rp.raw["monitor"]) == `"C15/lattice"` {
		var c c15Case
		rp.decode(&c)
		c15Eval(t, run, c)
		exit(run.Finish("replay"))
	}
	maxN := 3
	if h.Thorough() {
		maxN = 4
	}
	var variants []c15Node
	for _, z := range []string{"a", "b"} {
		for _, p := range []bool{false, true} {
			for _, tn := range []bool{false, true} {
				for _, r := range []int{0, 3} {
					if tn && r != 0 {
						continue
					}
					variants = append(variants, c15Node{z, p, tn, r})
				}
			}
		}
	}
	var cases []c15Case
	var rec func(cur []c15Node)
	rec = func(cur []c15Node) {
		if len(cur) > 0 {
			n := len(cur)
			for _, r := range []string{"1", "2", fmt.Sprint(n), fmt.Sprint(n + 1), "25%", "50%", "100%"} {
				for _, sel := range []bool{false, true} {
					for _, keys := range []bool{false, true} {
						for _, prev := range []string{"empty", "valid", "invalid", "ghost", "all", "all-but-first"} {
							cases = append(cases, c15Case{Nodes: append([]c15Node{}, cur...), Replicas: r, Selector: sel, Keys: keys, Prev: prev})
							if sel && (prev == "empty" || prev == "valid") {
								for _, shape := range []string{"in2", "exists+notin2", "in-empty", "badop"} {
									cases = append(cases, c15Case{Nodes: append([]c15Node{}, cur...), Replicas: r, Selector: sel, SelShape: shape, Keys: keys, Prev: prev})
								}
							}
							if !keys && !sel { // a paused canary is still an active canary: the list must still be completed
								cases = append(cases, c15Case{Nodes: append([]c15Node{}, cur...), Replicas: r, Selector: sel, Keys: keys, Prev: prev, Paused: "annotation"})
								cases = append(cases, c15Case{Nodes: append([]c15Node{}, cur...), Replicas: r, Selector: sel, Keys: keys, Prev: prev, Paused: "condition"})
							}
						}
					}
				}
			}
		}
		if len(cur) == maxN {
			return
		}
		for _, v := range variants {
			rec(append(cur, v))
		}
	}
	rec(nil)
	parallel(len(cases), func(i int) { c15Eval(t, run, cases[i]) })
	requireAntecedents(run, "C15/canary-active")
	// world: node churn while the canary runs
	b := 1
	if h.Thorough() {
		b = 2
	}
	// Templates: a second template change while the canary runs (the nodes selected for the first one are still valid)
	churn := &w.Alpha{DelNodes: true, Taints: []string{"NoSchedule"}, AddNodes: []string{"n9"}, PodDev: []string{"restart:1"}, Templates: []string{"C"}}
	scs := []scOpt{corpusS3([]string{"n1", "n2", "n3"}, "2", "auto", b, churn), corpusS3([]string{"n1", "n2"}, "50%", "auto", b, churn)}
	if h.Thorough() {
		scs = append(scs, corpusS3([]string{"n1", "n2", "n3"}, "50%", "auto", 1, churn))
	}
	runWorld(t, run, scs, []func(*w.MonCtx){w.MonC15}, 0)
	run.Cov["evaluations"] = int64(len(cases)) + run.Counter("transitions")
	run.Cov["lattice_reconciles"] = len(cases)
	run.Sample(cases[len(cases)/3])
	run.Assumptions = []string{"a percentage resolves against the number of eligible nodes (= status.desired in the lattice); either base is accepted in the world monitor",
		"when the reconcile reports an error nothing is required of the list in that step"}
	exit(run.Finish(fmt.Sprintf("lattice: every vector of 1..%d nodes over 12 node variants (zone a/b, pool label, tainted, restart history) x replicas {1,2,N,N+1,25%%,50%%,100%%} x canary nodeSelector x anti-affinity keys x previous list {none, valid, now-invalid, vanished, every node (longer than the replicas asked for now)} x paused {no, by annotation, by replica-set condition} through one real ExtendedDaemonSet Reconcile; BFS of canary scenarios with node deletion / tainting / addition while the canary runs; non-trivial = distinct (shape, outcome)", maxN)))
}
