package checks

import (
	v1 "github.com/DataDog/extendeddaemonset/api/v1alpha1"
	"strings"
	"testing"

	"verif/mc/h"
	w "verif/mc/world"
)

func TestC14(t *testing.T) {
	run := h.NewRun("C14", "model_checking")
	if rp := replayFile(); rp != nil && strings.Contains(string(rp.raw["replay"]), "lattice_case") {
		var x struct {
			Case c14Case `json:"lattice_case"`
		}
		rp.decode(&x)
		c14Eval(t, run, x.Case)
		exit(run.Finish("replay"))
	}
	c14Lattice(t, run)
	b := 1
	n := []string{"n1", "n2"}
	if h.Thorough() {
		n = []string{"n1", "n2", "n3"}
	}
	churn := &w.Alpha{PodDev: []string{"unready", "fail"}, AddNodes: []string{"n9"}, DelNodes: true, Taints: []string{"cordon"}, Annots: []string{"rolling-update-paused=true", "rollout-frozen=true"}}
	// paused AND failed needs two deviations (auto-pause by restarts or user pause, then failure)
	pausedFailed := &w.Alpha{Kubectl: []string{"canary-pause", "canary-fail"}, PodDev: []string{"restart:2", "restart:3"}}
	scs := []scOpt{corpusS1(b, churn), corpusS2(n, "2", b, churn), corpusS3(n, "1", "auto", b, canaryDev()), corpusS3([]string{"n1", "n2"}, "1", "manual", 2, pausedFailed)}
	specEdits := corpusS3(n, "1", "auto", 2, &w.Alpha{SpecEdits: []string{"drop-canary", "canary-replicas=2"}, PodDev: []string{"restart:2"}, Kubectl: []string{"canary-pause"}})
	specEdits.name = "S3-canary-spec-edits"
	scs = append(scs, specEdits)
	// a user command lands between the reads and the first write of an ExtendedDaemonSet reconcile: whatever that
	// reconcile reports, a reconcile that reports success leaves the documented status behind
	overtaken := corpusS2(n, "1", 1, &w.Alpha{MidCmds: []string{"pause-rolling-update", "freeze-rollout"}, PodDev: []string{"unready"}})
	overtaken.name = "S2-commands-overtake-reconciles"
	overtakenCanary := corpusS3([]string{"n1", "n2"}, "1", "auto", 1, &w.Alpha{MidCmds: []string{"canary-pause", "canary-validate"}})
	overtakenCanary.name = "S3-commands-overtake-reconciles"
	scs = append(scs, overtaken, overtakenCanary)
	// a canary spread over a node label whose second value only has a tainted node (the selection fills up from the first
	// value): whatever the list looks like, the counters must describe the pods that exist
	s3z := corpusS3([]string{"n1:zone=a", "n2:zone=a", "n3:zone=b"}, "2", "manual", 1, &w.Alpha{Kubectl: []string{"canary-validate"}, PodDev: []string{"unready"}})
	s3z.name = "S3-canary-2-anti-affinity-second-zone-tainted"
	s3z.eds = append(s3z.eds, func(e *v1.ExtendedDaemonSet) { e.Spec.Strategy.Canary.NodeAntiAffinityKeys = []string{"zone"} })
	s3z.first = []w.Event{evb("taint", "n3", "NoSchedule"), evb("setTemplate", edsKey, "B")}
	scs = append(scs, s3z)
	type sample struct {
		sc *w.Scenario
		s  *w.State
	}
	var samples []sample
	k := 0
	runWorld(t, run, scs, []func(*w.MonCtx){w.MonC14, w.MonC14Status}, 0, func(sc *w.Scenario, s *w.State, d int) {
		k++
		if k%29 == 0 {
			if len(samples) < 100000 {
				samples = append(samples, sample{sc, s})
			}
		}
	})
	requireAntecedents(run, "C14/ers-counters", "C14/eds-status")
	// quiescent clause at the closure fixpoint of every 29th reachable state
	parallel(len(samples), func(i int) {
		sm := samples[i]
		r := w.Closure(t, sm.sc, sm.s, w.ClosureOpts{Validate: true, SkipJumps: true})
		run.Count("closures", 1)
		if !r.Converged {
			return // convergence itself is C02's business
		}
		if sig, msg := w.CheckQuiescentStatus(r.Final, "ns", "foo"); sig != "" {
			_, path := 0, []w.Event(nil)
			run.Violate(h.Violation{Signature: sig, Monitor: "C14/quiescent", Message: msg, Replay: map[string]interface{}{"scenario": sm.sc.Name, "start_state": sm.s.Describe(), "final_state": r.Final.Describe(), "path": path}})
		}
		run.Count("antecedent:C14/quiescent", 1)
		// a canary in manual validation mode is quiescent for as long as nobody validates it: the same clause holds there
		if e := sm.s.EDS("ns", "foo"); e != nil && e.Status.Canary != nil && e.Spec.Strategy.Canary != nil && e.Spec.Strategy.Canary.ValidationMode == v1.ExtendedDaemonSetSpecStrategyCanaryValidationModeManual {
			r2 := w.Closure(t, sm.sc, sm.s, w.ClosureOpts{SkipJumps: true})
			run.Count("closures", 1)
			if r2.Converged {
				if e2 := r2.Final.EDS("ns", "foo"); e2 != nil && e2.Status.Canary != nil {
					run.Count("antecedent:C14/quiescent-canary", 1)
					if sig, msg := w.CheckQuiescentStatus(r2.Final, "ns", "foo"); sig != "" {
						run.Violate(h.Violation{Signature: sig + " (canary waiting for its validation)", Monitor: "C14/quiescent", Message: msg, Replay: map[string]interface{}{"scenario": sm.sc.Name, "start_state": sm.s.Describe(), "final_state": r2.Final.Describe()}})
					}
				}
			}
		}
	})
	requireAntecedents(run, "C14/quiescent", "C14/quiescent-canary")
	run.Cov["evaluations"] = run.Counter("transitions") + run.Counter("lattice_reconciles") + run.Counter("closures")
	exit(run.Finish("status-function lattice: one real R_eds on every combination of canary strategy x recorded active replica set {A, B, empty, vanished} x third replica set x status tuples of up to three replica sets x Canary-Paused / Canary-Failed conditions x canary-paused / rolling-update-paused / rollout-frozen / canary-valid annotations x previous status.canary x duration elapsed, judged by the reference status function; BFS of S1/S2/S3 with pod/node/annotation deviations: replica-set counter ordering after every full sync, ExtendedDaemonSet status against the reference status function after every R_eds, and the quiescent-state clause at the closure fixpoint of sampled reachable states; non-trivial = scenarios"))
}
