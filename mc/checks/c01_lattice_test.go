package checks

import (
	"fmt"
	"testing"
	"time"

	corev1 "k8s.io/api/core/v1"
	metav1 "k8s.io/apimachinery/pkg/apis/meta/v1"
	"sigs.k8s.io/controller-runtime/pkg/client"

	v1 "github.com/DataDog/extendeddaemonset/api/v1alpha1"

	"verif/mc/h"
	w "verif/mc/world"
)

// ---- C01 lattice: one replica-set sync on every layout of a bounded lattice ---------------------------

type c01Pod struct {
	Other bool   `json:"of_other_replica_set"`
	State string `json:"state"`    // pending-unbound running failed unknown terminating
	Age   int    `json:"age_rank"` // 0 older, 1 equal, 2 newer (relative to the other pod of the node)
}

type c01Node struct {
	Label string   `json:"label_k"` // "", a, b
	Taint string   `json:"taint"`   // "", NS-dedicated, NE-dedicated, NS-other, PNS-other, NE-notready, two-taint lists in both orders
	Pods  []c01Pod `json:"pods"`
}

type c01Case struct {
	Nodes    []c01Node `json:"nodes"`
	Template string    `json:"template"` // selector variant
	Tolerate bool      `json:"template_tolerates_dedicated"`
	Role     string    `json:"role"` // active active-canarylist canary-in canary-out unknown
	Affin    bool      `json:"affinity_assignment_mode"`
}

var c01Templates = []string{"none", "sel-a", "req-in-a", "req-notin-a", "req-exists", "req-name-n1", "req-name-zzz", "req-empty-term", "sel-a+preferred-only", "sel-a+req-exists"}

func c01Template(kind string, tolerate bool) corev1.PodTemplateSpec {
	t := w.Tpl("X")
	req := func(r corev1.NodeSelectorRequirement, field bool) *corev1.Affinity {
		term := corev1.NodeSelectorTerm{}
		if field {
			term.MatchFields = []corev1.NodeSelectorRequirement{r}
		} else {
			term.MatchExpressions = []corev1.NodeSelectorRequirement{r}
		}
		return &corev1.Affinity{NodeAffinity: &corev1.NodeAffinity{RequiredDuringSchedulingIgnoredDuringExecution: &corev1.NodeSelector{NodeSelectorTerms: []corev1.NodeSelectorTerm{term}}}}
	}
	switch kind {
	case "sel-a":
		t.Spec.NodeSelector = map[string]string{"k": "a"}
	case "req-in-a":
		t.Spec.Affinity = req(corev1.NodeSelectorRequirement{Key: "k", Operator: corev1.NodeSelectorOpIn, Values: []string{"a"}}, false)
	case "req-notin-a":
		t.Spec.Affinity = req(corev1.NodeSelectorRequirement{Key: "k", Operator: corev1.NodeSelectorOpNotIn, Values: []string{"a"}}, false)
	case "req-exists":
		t.Spec.Affinity = req(corev1.NodeSelectorRequirement{Key: "k", Operator: corev1.NodeSelectorOpExists}, false)
	case "req-name-n1":
		t.Spec.Affinity = req(corev1.NodeSelectorRequirement{Key: "metadata.name", Operator: corev1.NodeSelectorOpIn, Values: []string{"n1"}}, true)
	case "req-name-zzz":
		t.Spec.Affinity = req(corev1.NodeSelectorRequirement{Key: "metadata.name", Operator: corev1.NodeSelectorOpIn, Values: []string{"zzz"}}, true)
	case "req-empty-term":
		t.Spec.Affinity = &corev1.Affinity{NodeAffinity: &corev1.NodeAffinity{RequiredDuringSchedulingIgnoredDuringExecution: &corev1.NodeSelector{NodeSelectorTerms: []corev1.NodeSelectorTerm{{}}}}}
	case "sel-a+preferred-only":
		t.Spec.NodeSelector = map[string]string{"k": "a"}
		t.Spec.Affinity = &corev1.Affinity{NodeAffinity: &corev1.NodeAffinity{PreferredDuringSchedulingIgnoredDuringExecution: []corev1.PreferredSchedulingTerm{{Weight: 1,
			Preference: corev1.NodeSelectorTerm{MatchExpressions: []corev1.NodeSelectorRequirement{{Key: "k", Operator: corev1.NodeSelectorOpExists}}}}}}}
	case "sel-a+req-exists":
		t.Spec.NodeSelector = map[string]string{"k": "a"}
		t.Spec.Affinity = req(corev1.NodeSelectorRequirement{Key: "k", Operator: corev1.NodeSelectorOpExists}, false)
	}
	if tolerate {
		t.Spec.Tolerations = []corev1.Toleration{{Key: "dedicated", Operator: corev1.TolerationOpExists}}
	}
	return t
}

func c01NodeObj(name string, n c01Node) *corev1.Node {
	lbl := map[string]string{}
	if n.Label != "" {
		lbl["k"] = n.Label
	}
	o := w.MkNode(name, lbl)
	switch n.Taint {
	case "NS-dedicated":
		o.Spec.Taints = []corev1.Taint{{Key: "dedicated", Value: "x", Effect: corev1.TaintEffectNoSchedule}}
	case "NE-dedicated":
		o.Spec.Taints = []corev1.Taint{{Key: "dedicated", Value: "x", Effect: corev1.TaintEffectNoExecute}}
	case "NS-other":
		o.Spec.Taints = []corev1.Taint{{Key: "other", Value: "x", Effect: corev1.TaintEffectNoSchedule}}
	case "PNS-other":
		o.Spec.Taints = []corev1.Taint{{Key: "other", Value: "x", Effect: corev1.TaintEffectPreferNoSchedule}}
	case "NE-notready":
		o.Spec.Taints = []corev1.Taint{{Key: "node.kubernetes.io/not-ready", Effect: corev1.TaintEffectNoExecute}}
	case "NS-dedicated+NE-notready": // an untolerated taint followed by a tolerated one, and the reverse order
		o.Spec.Taints = []corev1.Taint{{Key: "dedicated", Value: "x", Effect: corev1.TaintEffectNoSchedule}, {Key: "node.kubernetes.io/not-ready", Effect: corev1.TaintEffectNoExecute}}
	case "NE-notready+NS-dedicated":
		o.Spec.Taints = []corev1.Taint{{Key: "node.kubernetes.io/not-ready", Effect: corev1.TaintEffectNoExecute}, {Key: "dedicated", Value: "x", Effect: corev1.TaintEffectNoSchedule}}
	}
	return o
}

func c01PodObj(idx int, node string, p c01Pod, hashX, hashO string, now time.Time) *corev1.Pod {
	rs, hash := "foo-x", hashX
	if p.Other {
		rs, hash = "foo-o", hashO
	}
	created := now.Add(-time.Hour)
	switch p.Age {
	case 0:
		created = created.Add(-time.Minute)
	case 2:
		created = created.Add(time.Minute)
	}
	o := &corev1.Pod{ObjectMeta: metav1.ObjectMeta{Namespace: "ns", Name: fmt.Sprintf("%s-%s-%d", rs, node, idx), CreationTimestamp: metav1.NewTime(created),
		Labels:      map[string]string{v1.ExtendedDaemonSetNameLabelKey: "foo", v1.ExtendedDaemonSetReplicaSetNameLabelKey: rs},
		Annotations: map[string]string{v1.MD5ExtendedDaemonSetAnnotationKey: hash}, Finalizers: []string{w.PodFinalizer}},
		Spec:   corev1.PodSpec{NodeName: node, Containers: []corev1.Container{{Name: "main", Image: "X"}}},
		Status: corev1.PodStatus{Phase: corev1.PodRunning, Conditions: []corev1.PodCondition{{Type: corev1.PodReady, Status: corev1.ConditionTrue}}}}
	switch p.State {
	case "pending-unbound":
		o.Spec.NodeName = ""
		o.Spec.Affinity = &corev1.Affinity{NodeAffinity: &corev1.NodeAffinity{RequiredDuringSchedulingIgnoredDuringExecution: &corev1.NodeSelector{
			NodeSelectorTerms: []corev1.NodeSelectorTerm{{MatchFields: []corev1.NodeSelectorRequirement{{Key: "metadata.name", Operator: corev1.NodeSelectorOpIn, Values: []string{node}}}}}}}}
		o.Status = corev1.PodStatus{Phase: corev1.PodPending}
	case "failed":
		o.Status = corev1.PodStatus{Phase: corev1.PodFailed, Reason: "Evicted"}
	case "unknown":
		o.Status = corev1.PodStatus{Phase: corev1.PodUnknown}
	case "terminating":
		dt := metav1.NewTime(now.Add(-3 * time.Second))
		g := int64(30)
		o.DeletionTimestamp, o.DeletionGracePeriodSeconds = &dt, &g
	}
	return o
}

func c01Build(c c01Case, now time.Time) *w.State {
	tplX := c01Template(c.Template, c.Tolerate)
	tplO := w.Tpl("O")
	eds := w.MkEDS("ns", "foo", tplX)
	eds.Spec.Strategy.ReconcileFrequency = w.Dur(0)
	eds.Spec.Strategy.RollingUpdate.MaxUnavailable = w.IntOrStr("100%")
	eds.Spec.Strategy.RollingUpdate.SlowStartAdditiveIncrease = w.IntOrStr("100%")
	if c.Role != "active" && c.Role != "unknown" {
		eds.Spec.Strategy.Canary = &v1.ExtendedDaemonSetSpecStrategyCanary{Replicas: w.IntOrStr("1"), Duration: w.Dur(10 * time.Minute)}
	}
	eds = v1.DefaultExtendedDaemonSet(eds, "auto")
	rsX := mkERS("ns", "foo-x", "foo", tplX, now.Add(-2*time.Hour))
	rsO := mkERS("ns", "foo-o", "foo", tplO, now.Add(-3*time.Hour))
	switch c.Role {
	case "active":
		eds.Status.ActiveReplicaSet = "foo-x"
	case "active-canarylist":
		eds.Status.ActiveReplicaSet = "foo-x"
		eds.Status.Canary = &v1.ExtendedDaemonSetStatusCanary{ReplicaSet: "foo-o", Nodes: []string{"n1"}}
	case "canary-in":
		eds.Status.ActiveReplicaSet = "foo-o"
		eds.Status.Canary = &v1.ExtendedDaemonSetStatusCanary{ReplicaSet: "foo-x", Nodes: []string{"n1"}}
	case "canary-out":
		eds.Status.ActiveReplicaSet = "foo-o"
		eds.Status.Canary = &v1.ExtendedDaemonSetStatusCanary{ReplicaSet: "foo-x", Nodes: []string{}}
	case "unknown":
		eds.Status.ActiveReplicaSet = "foo-o"
	}
	objs := []client.Object{eds, rsX, rsO}
	for i, n := range c.Nodes {
		name := fmt.Sprintf("n%d", i+1)
		objs = append(objs, c01NodeObj(name, n))
		for j, p := range n.Pods {
			objs = append(objs, c01PodObj(j, name, p, rsX.Spec.TemplateGeneration, rsO.Spec.TemplateGeneration, now))
		}
	}
	st := w.NewState(0, objs...)
	st.Now = now.Sub(w.Epoch)
	return st
}

func c01Eval(t *testing.T, run *h.Run, c c01Case) {
	sc := &w.Scenario{Name: "C01-lattice", Cfg: w.Config{AffinityMode: c.Affin}, Tpls: w.TplMap("A")}
	var pre *w.State
	w.InBubble(t, time.Hour, func() { pre = c01Build(c, time.Now()) })
	out := w.Step(t, sc, pre, w.Event{K: "R_ers", A: "ns/foo-x"})
	run.Count("lattice_syncs", 1)
	if out.RR.Panic != nil {
		run.Violate(h.Violation{Signature: fmt.Sprintf("C01/panic: %v at %s", out.RR.Panic, out.RR.PanicSite), Monitor: "C01/lattice", Message: "", Replay: c})
		return
	}
	mc := w.NewMonCtx(sc, pre, out, run, func() (int, []w.Event) { return 0, nil })
	mc.Extra = map[string]interface{}{"lattice_case": c}
	w.MonC01(mc)
	creates, deletes := 0, 0
	for _, call := range out.Log {
		if call.Kind == "Pod" && call.Verb == "create" {
			creates++
		}
		if call.Kind == "Pod" && call.Verb == "delete" {
			deletes++
		}
	}
	run.Nontrivial(fmt.Sprintf("%s:%s:c%d:d%d", c.Role, c.Template, creates, min(deletes, 2)))
}

func c01PodLayouts(full bool) [][]c01Pod {
	states := []string{"pending-unbound", "running", "failed", "unknown", "terminating"}
	var single []c01Pod
	for _, o := range []bool{false, true} {
		for _, s := range states {
			single = append(single, c01Pod{o, s, 1})
		}
	}
	out := [][]c01Pod{nil}
	for _, p := range single {
		out = append(out, []c01Pod{p})
	}
	if !full {
		return out
	}
	for _, p := range single {
		for _, q := range single {
			for _, age := range []int{0, 1, 2} {
				q2 := q
				q2.Age = age
				out = append(out, []c01Pod{p, q2})
			}
		}
	}
	return out
}

func c01Lattice(t *testing.T, run *h.Run) {
	labels := []string{"", "a", "b"}
	taints := []string{"", "NS-dedicated", "NE-dedicated", "NS-other", "PNS-other", "NE-notready", "NS-dedicated+NE-notready", "NE-notready+NS-dedicated"}
	roles := []string{"active", "active-canarylist", "canary-in", "canary-out", "unknown"}
	var cases []c01Case
	full := c01PodLayouts(true)
	small := c01PodLayouts(false)
	// one node: the full pod-layout alphabet
	for _, l := range labels {
		for _, tn := range taints {
			for _, tpl := range c01Templates {
				for _, tol := range []bool{false, true} {
					for _, role := range roles {
						for _, mode := range []bool{false, true} {
							layouts := full
							if !h.Thorough() && (tol || mode) {
								layouts = small // quick: the 2-pod layouts only for one toleration / mode combination
							}
							for _, pods := range layouts {
								cases = append(cases, c01Case{[]c01Node{{l, tn, pods}}, tpl, tol, role, mode})
							}
						}
					}
				}
			}
		}
	}
	// two nodes: reduced alphabet (independence of nodes is checked, not assumed)
	kinds := []c01Node{{"", "", nil}, {"a", "", nil}, {"b", "NS-other", nil}, {"a", "NE-dedicated", nil}}
	podsSmall := [][]c01Pod{nil, {{false, "running", 1}}, {{true, "running", 1}}, {{false, "running", 1}, {false, "running", 2}}}
	for _, k1 := range kinds {
		for _, k2 := range kinds {
			for _, p1 := range podsSmall {
				for _, p2 := range podsSmall {
					for _, tpl := range c01Templates {
						for _, role := range roles {
							n1, n2 := k1, k2
							n1.Pods, n2.Pods = p1, p2
							cases = append(cases, c01Case{[]c01Node{n1, n2}, tpl, true, role, false})
						}
					}
				}
			}
		}
	}
	parallel(len(cases), func(i int) { c01Eval(t, run, cases[i]) })
	run.Sample(cases[len(cases)/5])
	run.Sample(cases[len(cases)-7])
}
