package checks

import (
	"testing"

	"verif/mc/h"
	w "verif/mc/world"
)

func TestC01(t *testing.T) {
	run := h.NewRun("C01", "model_checking")
	mons := []func(*w.MonCtx){w.MonC01}
	churn := func() *w.Alpha {
		return &w.Alpha{PodDev: []string{"fail", "unknown"}, AddNodes: []string{"n9"}, DelNodes: true, Taints: []string{"NoSchedule", "NoExecute"}}
	}
	b := 1
	n2, n3 := []string{"n1", "n2"}, []string{"n1", "n2", "n3"}
	if h.Thorough() {
		b = 2
	}
	var scs []scOpt
	s1 := corpusS1(b, churn())
	s2 := corpusS2(n2, "1", b, churn())
	s3 := corpusS3(n3, "1", "auto", b, churn())
	scs = append(scs, s1, s2, s3)
	for _, o := range scs {
		o.mons = mons
		sc := mkScenario(t, o)
		explore(t, run, sc, 0)
		if run.HasUnknownViolation() {
			break
		}
	}
	worldFinish(run)
	exit(run.Finish("BFS over all interleavings of reconciles / kubelet / node churn / pod failures in scenarios S1,S2,S3 with monitors C01a-d on every transition; non-trivial = scenarios explored"))
}
