package checks

import (
	"strings"
	"testing"

	v1 "github.com/DataDog/extendeddaemonset/api/v1alpha1"

	"verif/mc/h"
	w "verif/mc/world"
)

func TestC01(t *testing.T) {
	run := h.NewRun("C01", "model_checking")
	if rp := replayFile(); rp != nil && strings.Contains(string(rp.raw["replay"]), "lattice_case") {
		var x struct {
			Case c01Case `json:"lattice_case"`
		}
		rp.decode(&x)
		c01Eval(t, run, x.Case)
		exit(run.Finish("replay"))
	}
	c01Lattice(t, run)
	requireAntecedents(run, "C01a/create", "C01b/duplicates", "C01c/ineligible")
	mons := []func(*w.MonCtx){w.MonC01}
	churn := func() *w.Alpha {
		return &w.Alpha{PodDev: []string{"fail", "unknown"}, AddNodes: []string{"n9"}, DelNodes: true, Taints: []string{"NoSchedule", "NoExecute", "cordon"}}
	}
	b := 1
	n2, n3 := []string{"n1", "n2"}, []string{"n1", "n2", "n3"}
	if h.Thorough() {
		b = 2
		inner := churn
		churn = func() *w.Alpha { // thorough: a sync may also hit one API failure
			a := inner()
			a.ERSFaults = []string{"lost:create Pod", "reject:delete Pod", "stop:create Pod"}
			return a
		}
	}
	var scs []scOpt
	s1 := corpusS1(b, churn())
	s2 := corpusS2(n2, "1", b, churn())
	s3 := corpusS3(n3, "1", "auto", b, churn())
	// a canary pod whose node is lost (phase Unknown) and a canary that is validated all the same: promotion, label
	// clean-up and the following rollout must leave that pod alone
	s3u := corpusS3(n2, "1", "auto", 2, &w.Alpha{PodDev: []string{"unknown"}, Kubectl: []string{"canary-validate"}})
	s3u.name = "S3-canary-unknown-pod-validated"
	// a canary spread over a node label (nodeAntiAffinityKeys) on a cluster in which the only node of the second value is
	// tainted: the balanced share of that value cannot be used and the selection has to fill the list up from the first
	// value; a node may join, leave or be tainted meanwhile and the user may ask for one more canary node
	s3z := corpusS3([]string{"n1:zone=a", "n2:zone=a", "n3:zone=b"}, "2", "auto", b, &w.Alpha{AddNodes: []string{"n9:zone=b"}, DelNodes: true, Taints: []string{"NoSchedule"}, SpecEdits: []string{"canary-replicas=3"}})
	s3z.name = "S3-canary-2-anti-affinity-second-zone-tainted"
	s3z.eds = append(s3z.eds, func(e *v1.ExtendedDaemonSet) { e.Spec.Strategy.Canary.NodeAntiAffinityKeys = []string{"zone"} })
	s3z.first = []w.Event{evb("taint", "n3", "NoSchedule"), evb("setTemplate", edsKey, "B")}
	scs = append(scs, s1, s2, s3, s3u, s3z)
	for _, o := range scs {
		o.mons = mons
		setupRun = run
		sc := mkScenario(t, o)
		explore(t, run, sc, 0)
		if run.HasUnknownViolation() {
			break
		}
	}
	worldFinish(run)
	run.Cov["evaluations"] = run.Counter("transitions") + run.Counter("lattice_syncs")
	exit(run.Finish("lattice: one real replica-set sync on every layout of {1 node: 3 labels x 6 taints x up to 2 pods over (own/other replica set x pending-unbound/running/failed/unknown/terminating x creation order)} x 10 template selector/affinity variants x toleration x 5 roles x both assignment modes, plus 2-node layouts over a reduced alphabet; BFS over all interleavings of reconciles / kubelet / node churn / pod failures in scenarios S1,S2,S3 with monitors C01a-d on every transition; non-trivial = scenarios explored"))
}
