package checks

import (
	v1 "github.com/DataDog/extendeddaemonset/api/v1alpha1"

	"fmt"
	"testing"
	"time"

	"verif/mc/h"
	w "verif/mc/world"
)

func canaryDev() *w.Alpha {
	return &w.Alpha{Templates: []string{"A", "C"}, Kubectl: []string{"canary-pause", "canary-unpause", "canary-validate", "canary-fail"},
		PodDev: []string{"restart:3"}, AddNodes: []string{"n9"}, DelNodes: true, Taints: []string{"NoSchedule"}}
}

func TestC04(t *testing.T) {
	run := h.NewRun("C04", "model_checking")
	b := 1
	n3 := []string{"n1", "n2", "n3"}
	lean := &w.Alpha{Templates: []string{"C"}, Kubectl: []string{"canary-validate", "canary-fail"}, AddNodes: []string{"n9"}, DelNodes: true}
	scs := []scOpt{corpusS3(n3, "1", "auto", b, canaryDev()), corpusS3([]string{"n1", "n2"}, "50%", "auto", b, canaryDev()), corpusS3(n3, "2", "manual", b, lean)}
	// the user edits the canary block while the canary runs: more replicas, fewer replicas, block removed
	edits := corpusS3(n3, "2", "auto", 1, &w.Alpha{SpecEdits: []string{"drop-canary", "canary-replicas=1", "canary-replicas=3"}})
	edits.name = "S3-canary-2-spec-edits"
	scs = append(scs, edits)
	// node-affinity assignment mode (the production setting) with templates whose own affinity excludes some other node by
	// name: the pods are pinned by an affinity the scheduler model honours, operator included
	pinned := corpusS3(n3, "1", "auto", b, &w.Alpha{Kubectl: []string{"canary-validate"}, Templates: []string{"C+notname:n2"}})
	pinned.name = "S3-canary-1-affinity-mode"
	pinned.cfg = w.Config{AffinityMode: true}
	pinned.tpls = []string{"A", "B+notname:zzz", "C+notname:n2"}
	pinned.first = []w.Event{evb("setTemplate", edsKey, "B+notname:zzz")}
	scs = append(scs, pinned)
	// a replica set that was active for a long time, was superseded by a validated canary and becomes the canary again
	// (template reverted) before it was ever synced as a leftover; then it is validated: active for the second time
	again := corpusS3([]string{"n1", "n2"}, "1", "manual", 1, &w.Alpha{Kubectl: []string{"canary-validate"}})
	again.name = "S3-active-canary-active-again"
	again.first = nil
	again.prepare = func(t *testing.T, sc *w.Scenario, s0 *w.State) *w.State {
		do := func(s *w.State, e w.Event) *w.State {
			out := w.Step(t, sc, s, e)
			if out.CmdErr != nil {
				panic(fmt.Sprintf("prepare %s: %s failed: %v", sc.Name, e, out.CmdErr))
			}
			return out.Next
		}
		s0 = do(s0, w.Event{K: "tick", N: 400}) // the first replica set has been active for more than five minutes
		r := w.Closure(t, sc, do(s0, evb("setTemplate", edsKey, "B")), w.ClosureOpts{SkipJumps: true, MaxStep: 10 * time.Second})
		if !r.Converged {
			panic("prepare " + sc.Name + ": " + r.Why)
		}
		s := do(do(r.Final, evb("kubectl", edsKey, "canary-validate")), ev("R_eds", edsKey)) // B promoted; A not synced since
		return do(do(s, evb("setTemplate", edsKey, "A")), ev("R_eds", edsKey))               // A is the canary
	}
	scs = append(scs, again)
	// a template whose own metadata carries the canary label key with another value (legal, if unusual): the canary pods
	// must still end up labelled as canary pods
	lbl := "B+label:" + v1.ExtendedDaemonSetReplicaSetCanaryLabelKey + "=false"
	labelled := corpusS3([]string{"n1", "n2"}, "1", "auto", 1, &w.Alpha{Kubectl: []string{"canary-validate"}, PodDev: []string{"fail"}})
	labelled.name = "S3-canary-1-template-carries-canary-label-key"
	labelled.tpls = []string{"A", lbl}
	labelled.first = []w.Event{evb("setTemplate", edsKey, lbl)}
	scs = append(scs, labelled)
	// a canary template that is narrower than the active one (it adds a nodeSelector): the node outside the selector is no
	// business of the canary and keeps its pod of the active template for as long as the canary lasts
	narrow := scOpt{name: "S3-canary-1-template-narrows-eligibility", nodes: []string{"n1:k=a", "n2:k=a", "n3"}, tpls: []string{"A", "B+nodesel:k=a"},
		eds:   []w.EDSOpt{w.WithCanary("1", 10*time.Minute, 0, "auto"), w.WithAuto(true, 1, true, 2)},
		first: []w.Event{evb("setTemplate", edsKey, "B+nodesel:k=a")}, alpha: &w.Alpha{Kubectl: []string{"canary-validate", "canary-fail"}, PodDev: []string{"unready"}}, budget: 1}
	scs = append(scs, narrow)
	// the same with more canary replicas than nodes that fit the new template: the selection reports a shortage at every
	// reconcile and status.canary.nodes stays empty - a canary on no node at all must not touch any node
	narrowShort := narrow
	narrowShort.name = "S3-canary-2-narrow-template-fits-one-node"
	narrowShort.nodes = []string{"n1:k=a", "n2", "n3"}
	narrowShort.eds = []w.EDSOpt{w.WithCanary("2", 10*time.Minute, 0, "auto"), w.WithAuto(true, 1, true, 2)}
	scs = append(scs, narrowShort)
	if h.Thorough() {
		faulty := canaryDev()
		faulty.EDSFaults = []string{"lost:update ExtendedDaemonSet", "reject:list Node", "reject:list Pod"}
		faulty.ERSFaults = []string{"lost:create Pod", "reject:patch Pod"}
		scsExtra := corpusS3(n3, "2", "auto", 1, faulty)
		scsExtra.name = "S3-canary-2-auto-with-faults"
		n4 := []string{"n1", "n2", "n3", "n4"}
		scs = []scOpt{scsExtra, edits, labelled, narrow, narrowShort, corpusS3(n3, "1", "auto", 2, canaryDev()), corpusS3(n4, "50%", "auto", 2, canaryDev()), corpusS3(n4, "2", "manual", 1, canaryDev())}
	}
	runWorld(t, run, scs, []func(*w.MonCtx){w.MonC04}, 0)
	requireAntecedents(run, "C04a/new-template-create", "C04c/active-sync-during-canary", "C04d/label-expected", "C04b/selection")
	exit(run.Finish("BFS over all interleavings of R_eds / R_ers(active, canary, leftover) / kubelet in canary scenarios (replicas 1, 50%, 2; auto and manual) with a second template change, pause/unpause/validate/fail, node add/delete/taint and restarts as bounded deviations; monitors C04a-d on every transition; non-trivial = scenarios"))
}
