package checks

import (
	"context"
	"encoding/json"
	"fmt"
	"testing"
	"time"

	autoscalingv1 "k8s.io/api/autoscaling/v1"
	corev1 "k8s.io/api/core/v1"
	apiequality "k8s.io/apimachinery/pkg/api/equality"
	"k8s.io/apimachinery/pkg/api/resource"
	metav1 "k8s.io/apimachinery/pkg/apis/meta/v1"
	"k8s.io/apimachinery/pkg/types"
	"sigs.k8s.io/controller-runtime/pkg/client"

	v1 "github.com/DataDog/extendeddaemonset/api/v1alpha1"

	"verif/mc/h"
	w "verif/mc/world"
)

type c10Case struct {
	Containers int    `json:"containers"`
	TplRes     bool   `json:"template_resources"`
	Affinity   string `json:"affinity"` // none one two foreign notin preferred
	NodeSel    bool   `json:"nodeSelector"`
	Toleration bool   `json:"toleration"`
	NodeAnnot  string `json:"node_annotation"` // absent good malformed ghost neighbour
	Setting    string `json:"setting"`         // none main-requests main-limits main-both side error-status
	Affin      bool   `json:"affinity_assignment_mode"`
	// TplAnnots: the pod template itself carries the controller's bookkeeping annotations with stale values (a template
	// copied from a running pod): nodehash and templatehash
	TplAnnots bool `json:"template_carries_stale_hash_annotations,omitempty"`
	// TplNodeName: the pod template itself names a node in spec.nodeName (copied from a running pod): the pod still goes to
	// the node it is created for, in both assignment modes
	TplNodeName bool `json:"template_carries_a_nodeName,omitempty"`
	// TplOwner: the pod template's metadata carries a controller owner reference of its own (copied from a pod of another
	// controller): the replica set cannot be made the controller, so no pod may be created at all
	TplOwner bool `json:"template_carries_a_controller_owner_reference,omitempty"`
}

func c10Cases() []c10Case {
	var out []c10Case
	for _, nc := range []int{1, 2} {
		for _, tr := range []bool{false, true} {
			for _, af := range []string{"none", "one", "two", "foreign", "notin", "preferred"} {
				for _, ns := range []bool{false, true} {
					for _, tol := range []bool{false, true} {
						for _, na := range []string{"absent", "good", "malformed", "ghost", "neighbour"} {
							for _, st := range []string{"none", "main-requests", "main-limits", "main-both", "side", "main-twice", "error-status", "empty-status"} {
								for _, mode := range []bool{false, true} {
									out = append(out, c10Case{Containers: nc, TplRes: tr, Affinity: af, NodeSel: ns, Toleration: tol, NodeAnnot: na, Setting: st, Affin: mode})
									if af == "none" && !tol {
										out = append(out, c10Case{Containers: nc, TplRes: tr, Affinity: af, NodeSel: ns, Toleration: tol, NodeAnnot: na, Setting: st, Affin: mode, TplAnnots: true})
									}
									if !tol && !tr && nc == 1 && na == "absent" && st == "none" {
										out = append(out, c10Case{Containers: nc, TplRes: tr, Affinity: af, NodeSel: ns, Toleration: tol, NodeAnnot: na, Setting: st, Affin: mode, TplNodeName: true})
										out = append(out, c10Case{Containers: nc, TplRes: tr, Affinity: af, NodeSel: ns, Toleration: tol, NodeAnnot: na, Setting: st, Affin: mode, TplOwner: true})
									}
								}
							}
						}
					}
				}
			}
		}
	}
	return out
}

func qty(s string) resource.Quantity { return resource.MustParse(s) }

func c10Template(c c10Case, image string) corev1.PodTemplateSpec {
	t := w.Tpl(image)
	if c.TplAnnots {
		t.Annotations = map[string]string{v1.MD5NodeExtendedDaemonSetAnnotationKey: "5ta1e5ta1e", v1.MD5ExtendedDaemonSetAnnotationKey: "0ld0ld0ld"}
		// ... and the labels that name the setting a pod was created with
		if t.Labels == nil {
			t.Labels = map[string]string{}
		}
		t.Labels[v1.ExtendedDaemonSetSettingNameLabelKey], t.Labels[v1.ExtendedDaemonSetSettingNamespaceLabelKey] = "a-setting-of-long-ago", "ns"
	}
	if c.TplNodeName {
		t.Spec.NodeName = "a-node-of-long-ago"
	}
	if c.TplOwner {
		tr := true
		t.OwnerReferences = []metav1.OwnerReference{{APIVersion: "apps/v1", Kind: "DaemonSet", Name: "legacy", UID: "uid-legacy", Controller: &tr}}
	}
	if c.Containers == 2 {
		t.Spec.Containers = append(t.Spec.Containers, corev1.Container{Name: "side", Image: "sidecar"})
	}
	if c.TplRes {
		t.Spec.Containers[0].Resources = corev1.ResourceRequirements{Requests: corev1.ResourceList{corev1.ResourceCPU: qty("100m")}, Limits: corev1.ResourceList{corev1.ResourceMemory: qty("64Mi")}}
	}
	term := func(key, val string) corev1.NodeSelectorTerm {
		return corev1.NodeSelectorTerm{MatchExpressions: []corev1.NodeSelectorRequirement{{Key: key, Operator: corev1.NodeSelectorOpIn, Values: []string{val}}}}
	}
	switch c.Affinity {
	case "one":
		t.Spec.Affinity = &corev1.Affinity{NodeAffinity: &corev1.NodeAffinity{RequiredDuringSchedulingIgnoredDuringExecution: &corev1.NodeSelector{NodeSelectorTerms: []corev1.NodeSelectorTerm{term("k", "a")}}}}
	case "two":
		t.Spec.Affinity = &corev1.Affinity{NodeAffinity: &corev1.NodeAffinity{RequiredDuringSchedulingIgnoredDuringExecution: &corev1.NodeSelector{NodeSelectorTerms: []corev1.NodeSelectorTerm{term("k", "zzz"), term("k", "a")}}}}
	case "foreign":
		ft := term("k", "a")
		ft.MatchFields = []corev1.NodeSelectorRequirement{{Key: "metadata.name", Operator: corev1.NodeSelectorOpIn, Values: []string{"some-other-node"}}}
		t.Spec.Affinity = &corev1.Affinity{NodeAffinity: &corev1.NodeAffinity{RequiredDuringSchedulingIgnoredDuringExecution: &corev1.NodeSelector{NodeSelectorTerms: []corev1.NodeSelectorTerm{ft, term("k", "a")}}}}
	case "notin":
		// the template excludes another node by name: a metadata.name requirement with an operator other than In
		nt := term("k", "a")
		nt.MatchFields = []corev1.NodeSelectorRequirement{{Key: "metadata.name", Operator: corev1.NodeSelectorOpNotIn, Values: []string{"some-other-node"}}}
		t.Spec.Affinity = &corev1.Affinity{NodeAffinity: &corev1.NodeAffinity{RequiredDuringSchedulingIgnoredDuringExecution: &corev1.NodeSelector{NodeSelectorTerms: []corev1.NodeSelectorTerm{nt}}}}
	case "preferred":
		t.Spec.Affinity = &corev1.Affinity{NodeAffinity: &corev1.NodeAffinity{PreferredDuringSchedulingIgnoredDuringExecution: []corev1.PreferredSchedulingTerm{{Weight: 1, Preference: term("k", "b")}}}}
	}
	if c.NodeSel {
		t.Spec.NodeSelector = map[string]string{"k": "a"}
	}
	if c.Toleration {
		// ... and a narrower toleration on one of the standard keys (what the DefaultTolerationSeconds admission plugin writes
		// into running pods): the unlimited default must still be there
		secs := int64(300)
		t.Spec.Tolerations = []corev1.Toleration{{Key: "dedicated", Operator: corev1.TolerationOpExists},
			{Key: "node.kubernetes.io/not-ready", Operator: corev1.TolerationOpExists, Effect: corev1.TaintEffectNoExecute, TolerationSeconds: &secs}}
	}
	return t
}

const c10AnnotKey = "resources.extendeddaemonset.datadoghq.com/ns.foo."

func c10Node(c c10Case, annotVal string) *corev1.Node {
	n := w.MkNode("n1", map[string]string{"k": "a"})
	n.Annotations = map[string]string{"unrelated": "x"}
	switch c.NodeAnnot {
	case "good":
		n.Annotations[c10AnnotKey+"main"] = annotVal
	case "malformed":
		n.Annotations[c10AnnotKey+"main"] = "{not json"
	case "ghost":
		n.Annotations[c10AnnotKey+"ghost"] = annotVal
	case "neighbour":
		// the override annotation of ANOTHER ExtendedDaemonSet of the namespace whose name extends this one's: ns/foo.bar
		n.Annotations[c10AnnotKey+"bar.main"] = annotVal
	}
	return n
}

func c10Setting(c c10Case, cpu string) *v1.ExtendedDaemonsetSetting {
	if c.Setting == "none" {
		return nil
	}
	s := &v1.ExtendedDaemonsetSetting{ObjectMeta: metav1.ObjectMeta{Namespace: "ns", Name: "set1", CreationTimestamp: metav1.NewTime(w.Epoch)},
		Spec: v1.ExtendedDaemonsetSettingSpec{Reference: &autoscalingv1.CrossVersionObjectReference{Kind: "ExtendedDaemonset", Name: "foo"},
			NodeSelector: metav1.LabelSelector{MatchLabels: map[string]string{"k": "a"}}},
		Status: v1.ExtendedDaemonsetSettingStatus{Status: v1.ExtendedDaemonsetSettingStatusValid}}
	req := corev1.ResourceList{corev1.ResourceCPU: qty(cpu)}
	lim := corev1.ResourceList{corev1.ResourceMemory: qty("128Mi")}
	switch c.Setting {
	case "main-requests":
		s.Spec.Containers = []v1.ExtendedDaemonsetSettingContainerSpec{{Name: "main", Resources: corev1.ResourceRequirements{Requests: req}}}
	case "main-limits":
		s.Spec.Containers = []v1.ExtendedDaemonsetSettingContainerSpec{{Name: "main", Resources: corev1.ResourceRequirements{Limits: lim}}}
	case "main-both":
		s.Spec.Containers = []v1.ExtendedDaemonsetSettingContainerSpec{{Name: "main", Resources: corev1.ResourceRequirements{Requests: req, Limits: lim}}}
	case "side":
		s.Spec.Containers = []v1.ExtendedDaemonsetSettingContainerSpec{{Name: "side", Resources: corev1.ResourceRequirements{Requests: req}}}
	case "main-twice":
		// the list names the same container twice with different values (the schema does not forbid it): whichever entry
		// the controller applies, it must apply the same one when it compares
		s.Spec.Containers = []v1.ExtendedDaemonsetSettingContainerSpec{{Name: "main", Resources: corev1.ResourceRequirements{Requests: req}},
			{Name: "main", Resources: corev1.ResourceRequirements{Requests: corev1.ResourceList{corev1.ResourceCPU: qty("450m")}}}}
	case "error-status":
		s.Spec.Containers = []v1.ExtendedDaemonsetSettingContainerSpec{{Name: "main", Resources: corev1.ResourceRequirements{Requests: req}}}
		s.Status.Status = v1.ExtendedDaemonsetSettingStatusError
	case "empty-status": // created, not yet looked at by the setting controller: not valid (yet)
		s.Spec.Containers = []v1.ExtendedDaemonsetSettingContainerSpec{{Name: "main", Resources: corev1.ResourceRequirements{Requests: req}}}
		s.Status.Status = ""
	}
	return s
}

// c10Expected resources of container name: annotation > valid setting > template.
func c10Expected(c c10Case, tpl *corev1.PodTemplateSpec, name, annotVal string, set *v1.ExtendedDaemonsetSetting) corev1.ResourceRequirements {
	if c.NodeAnnot == "good" && name == "main" {
		var r corev1.ResourceRequirements
		_ = json.Unmarshal([]byte(annotVal), &r)
		return r
	}
	if set != nil && set.Status.Status == v1.ExtendedDaemonsetSettingStatusValid {
		for _, sc := range set.Spec.Containers {
			if sc.Name == name {
				return sc.Resources
			}
		}
	}
	for _, tc := range tpl.Spec.Containers {
		if tc.Name == name {
			return tc.Resources
		}
	}
	return corev1.ResourceRequirements{}
}

func c10Eval(t *testing.T, run *h.Run, c c10Case) {
	viol := func(sig, msg string) {
		run.Violate(h.Violation{Signature: sig, Monitor: "C10", Message: msg, Replay: c})
	}
	const annotVal = `{"requests":{"cpu":"200m"}}`
	w.InBubble(t, time.Hour, func() {
		now := time.Now()
		ctx := context.Background()
		tpl := c10Template(c, "A")
		eds := w.MkEDS("ns", "foo", tpl)
		eds.Spec.Strategy.ReconcileFrequency = w.Dur(0)
		eds = v1.DefaultExtendedDaemonSet(eds, "auto")
		rs := mkERS("ns", "foo-a", "foo", tpl, now.Add(-time.Hour))
		eds.Status.ActiveReplicaSet = rs.Name
		node := c10Node(c, annotVal)
		set := c10Setting(c, "300m")
		objs := []client.Object{eds, rs, node}
		if set != nil {
			objs = append(objs, set)
		}
		eligible := w.Eligible(node, &tpl)
		st := w.NewState(0, objs...)
		st.Now = time.Hour
		l := w.NewLive(st, w.Config{AffinityMode: c.Affin})
		sync := func() (creates []*corev1.Pod, deletes []string) {
			l.API.ResetLog()
			rr := l.ReconcileERS("ns", rs.Name)
			if rr.Panic != nil {
				viol(fmt.Sprintf("C10/panic: %v at %s", rr.Panic, rr.PanicSite), "")
			}
			for _, call := range l.API.Log {
				if call.Kind == "Pod" && call.Verb == "create" {
					creates = append(creates, call.Obj.(*corev1.Pod))
				}
				if call.Kind == "Pod" && call.Verb == "delete" {
					deletes = append(deletes, call.Name)
				}
			}
			return
		}
		creates, _ := sync()
		if !eligible {
			if len(creates) != 0 {
				viol("C10/eligible: pod created for a node the template excludes", "")
			}
			run.Nontrivial("ineligible:" + c.Affinity)
			return
		}
		if c.TplOwner {
			// "is owned by its replica set": a pod that cannot be is not created
			if len(creates) != 0 {
				viol("C10/owner: a pod that cannot be controlled by its replica set (the template carries a controller owner reference) is created all the same", fmt.Sprint(creates[0].OwnerReferences))
			}
			run.Nontrivial("unbuildable")
			return
		}
		if len(creates) != 1 {
			viol("C10/create: expected exactly one pod for the eligible node", fmt.Sprint(len(creates)))
			return
		}
		p := creates[0]
		// --- pinned
		if c.Affin {
			ok := p.Spec.NodeName == "" && p.Spec.Affinity != nil && p.Spec.Affinity.NodeAffinity != nil && p.Spec.Affinity.NodeAffinity.RequiredDuringSchedulingIgnoredDuringExecution != nil
			if ok {
				terms := p.Spec.Affinity.NodeAffinity.RequiredDuringSchedulingIgnoredDuringExecution.NodeSelectorTerms
				ok = len(terms) > 0
				for _, tm := range terms {
					found := 0
					for _, f := range tm.MatchFields {
						if f.Key == "metadata.name" {
							if f.Operator == corev1.NodeSelectorOpIn && len(f.Values) == 1 && f.Values[0] == "n1" {
								found++
							} else {
								ok = false
							}
						}
					}
					if found != 1 {
						ok = false
					}
				}
			}
			if !ok {
				viol("C10/pinned: pod is not bound to its node by a name affinity in every required term", fmt.Sprintf("%+v", p.Spec.Affinity))
			}
		} else if p.Spec.NodeName != "n1" {
			viol("C10/pinned: pod is not bound to its node by nodeName", p.Spec.NodeName)
		}
		// --- owned, labelled, hashed, tolerations
		owned := false
		for _, o := range p.OwnerReferences {
			if o.Kind == "ExtendedDaemonSetReplicaSet" && o.Name == rs.Name && o.Controller != nil && *o.Controller {
				owned = true
			}
		}
		if !owned {
			viol("C10/owner: pod is not controlled by its replica set", "")
		}
		if p.Labels[v1.ExtendedDaemonSetNameLabelKey] != "foo" || p.Labels[v1.ExtendedDaemonSetReplicaSetNameLabelKey] != rs.Name {
			viol("C10/labels: ExtendedDaemonSet / replica-set name labels missing or wrong", fmt.Sprint(p.Labels))
		}
		if p.Namespace != "ns" {
			viol("C10/labels: pod created in the wrong namespace", p.Namespace)
		}
		if p.Annotations[v1.MD5ExtendedDaemonSetAnnotationKey] != rs.Spec.TemplateGeneration {
			viol("C10/hash: template hash annotation differs from the replica set's", "")
		}
		for _, want := range w.StandardTolerations() {
			found := false
			for _, got := range p.Spec.Tolerations {
				if got == want {
					found = true
				}
			}
			if !found {
				viol("C10/tolerations: a default DaemonSet toleration is missing", want.Key)
			}
		}
		if c.Toleration {
			found := false
			for _, got := range p.Spec.Tolerations {
				if got.Key == "dedicated" {
					found = true
				}
			}
			if !found {
				viol("C10/tolerations: a template toleration was dropped", "")
			}
		}
		// --- resources
		for _, ct := range p.Spec.Containers {
			want := c10Expected(c, &tpl, ct.Name, annotVal, set)
			okAlt := false
			if c.Setting == "main-twice" && ct.Name == "main" && c.NodeAnnot != "good" && set != nil {
				okAlt = apiequality.Semantic.DeepEqual(ct.Resources, set.Spec.Containers[1].Resources) // either entry is accepted
			}
			if !okAlt && !apiequality.Semantic.DeepEqual(ct.Resources, want) {
				viol("C10/resources: container resources are not annotation > valid setting > template", fmt.Sprintf("container %s got %v want %v", ct.Name, ct.Resources, want))
			}
		}
		// --- the same first sync with every single read rejected: whatever pod is created must still be right
		{
			sc := &w.Scenario{Name: "C10-lattice", Cfg: w.Config{AffinityMode: c.Affin}, Tpls: w.TplMap("A")}
			stepHere := func(fn func(int, *w.Call) string) *w.StepOut { // we are already inside a bubble
				l2 := w.NewLive(st, sc.Cfg)
				l2.API.FaultFn = fn
				return w.Apply(l2, st, w.Event{K: "R_ers", A: "ns/" + rs.Name}, sc.Tpls)
			}
			base := stepHere(nil)
			for k, call := range base.Log {
				if call.IsWrite() {
					continue
				}
				k := k
				out := stepHere(func(idx int, cc *w.Call) string {
					if idx == k {
						return w.FaultReject
					}
					return ""
				})
				run.Count("read_fault_syncs", 1)
				mc := w.NewMonCtx(sc, st, out, run, func() (int, []w.Event) { return 0, nil })
				mc.Extra = map[string]interface{}{"lattice_case": c, "rejected_read": call.Key()}
				w.MonC10(mc)
			}
		}
		// --- stable: same inputs, pod bound and Ready => nothing is created or deleted
		in := l.API.Inner()
		pods := &corev1.PodList{}
		_ = in.List(ctx, pods)
		for i := range pods.Items {
			w.MakeReady(ctx, in, &pods.Items[i])
		}
		cr, del := sync()
		if len(cr) != 0 || len(del) != 0 {
			both := ""
			if c.NodeAnnot == "good" && (c.Setting == "main-requests" || c.Setting == "main-limits" || c.Setting == "main-both") {
				both = ": override annotation and setting on the same container"
			}
			viol("C10/stable: a pod just created is replaced although the inputs did not change"+both, fmt.Sprintf("creates=%d deletes=%v", len(cr), del))
			return
		}
		run.Nontrivial(fmt.Sprintf("stable:%s:%s:%s:%v", c.Affinity, c.NodeAnnot, c.Setting, c.Affin))
		base := l.Capture(st)
		// --- single-field perturbations must make the pod outdated
		perturb := func(name string, mutate func(in client.Client) string) {
			l2 := w.NewLive(base, w.Config{AffinityMode: c.Affin})
			target := mutate(l2.API.Inner())
			l2.API.ResetLog()
			l2.ReconcileERS("ns", target)
			deleted := false
			for _, call := range l2.API.Log {
				if call.Kind == "Pod" && call.Verb == "delete" {
					deleted = true
				}
			}
			run.Count("perturbations", 1)
			if !deleted {
				viol("C10/outdated: pod not recognised as outdated after a change of "+name, "")
			}
		}
		if c.NodeAnnot == "neighbour" {
			// a change of an annotation that belongs to another ExtendedDaemonSet (ns/foo.bar) is not a change of this
			// one's inputs: the pod must NOT be replaced
			l3 := w.NewLive(base, w.Config{AffinityMode: c.Affin})
			in3 := l3.API.Inner()
			n := &corev1.Node{}
			_ = in3.Get(ctx, types.NamespacedName{Name: "n1"}, n)
			n.Annotations[c10AnnotKey+"bar.main"] = `{"requests":{"cpu":"250m"}}`
			_ = in3.Update(ctx, n)
			l3.API.ResetLog()
			l3.ReconcileERS("ns", rs.Name)
			run.Count("perturbations", 1)
			for _, call := range l3.API.Log {
				if call.Kind == "Pod" && call.Verb == "delete" {
					viol("C10/stable: pod replaced after a change of an override annotation that belongs to another ExtendedDaemonSet (ns/foo.bar)", call.Name)
				}
			}
		}
		perturb("the template", func(in client.Client) string {
			tplB := c10Template(c, "B")
			rsB := mkERS("ns", "foo-b", "foo", tplB, now)
			_ = in.Create(ctx, rsB)
			e := &v1.ExtendedDaemonSet{}
			_ = in.Get(ctx, types.NamespacedName{Namespace: "ns", Name: "foo"}, e)
			e.Spec.Template = tplB
			_ = in.Update(ctx, e)
			e.Status.ActiveReplicaSet = "foo-b"
			_ = in.Status().Update(ctx, e)
			return "foo-b"
		})
		if c.NodeAnnot == "good" || c.NodeAnnot == "ghost" {
			perturb("the node's override annotation", func(in client.Client) string {
				n := &corev1.Node{}
				_ = in.Get(ctx, types.NamespacedName{Name: "n1"}, n)
				for k := range n.Annotations {
					if k != "unrelated" {
						n.Annotations[k] = `{"requests":{"cpu":"250m"}}`
					}
				}
				_ = in.Update(ctx, n)
				return rs.Name
			})
		}
		if c.NodeAnnot == "good" {
			perturb("the node's override annotation (removed)", func(in client.Client) string {
				n := &corev1.Node{}
				_ = in.Get(ctx, types.NamespacedName{Name: "n1"}, n)
				for k := range n.Annotations {
					if k != "unrelated" {
						delete(n.Annotations, k)
					}
				}
				_ = in.Update(ctx, n)
				return rs.Name
			})
		}
		if c.NodeAnnot == "absent" {
			perturb("the node's override annotation (added)", func(in client.Client) string {
				n := &corev1.Node{}
				_ = in.Get(ctx, types.NamespacedName{Name: "n1"}, n)
				n.Annotations[c10AnnotKey+"main"] = annotVal
				_ = in.Update(ctx, n)
				return rs.Name
			})
		}
		if c.Setting == "none" && c.NodeAnnot != "good" {
			for _, kind := range []string{"main-requests", "main-limits", "main-both"} {
				kind := kind
				perturb("the applicable setting (a valid setting starts selecting the node: "+kind+")", func(in client.Client) string {
					c2 := c
					c2.Setting = kind
					_ = in.Create(ctx, c10Setting(c2, "300m"))
					return rs.Name
				})
			}
		}
		if (c.Setting == "main-requests" || c.Setting == "main-both") && c.NodeAnnot != "good" {
			perturb("a resource value of the applicable setting", func(in client.Client) string {
				s := &v1.ExtendedDaemonsetSetting{}
				_ = in.Get(ctx, types.NamespacedName{Namespace: "ns", Name: "set1"}, s)
				s.Spec.Containers[0].Resources.Requests[corev1.ResourceCPU] = qty("350m")
				_ = in.Update(ctx, s)
				return rs.Name
			})
		}
	})
}

func TestC10(t *testing.T) {
	run := h.NewRun("C10", "model_checking")
	if rp := replayFile(); rp != nil {
		var c c10Case
		rp.decode(&c)
		c10Eval(t, run, c)
		exit(run.Finish("replay"))
	}
	cases := c10Cases()
	parallel(len(cases), func(i int) { c10Eval(t, run, cases[i]) })
	run.Cov["evaluations"] = int64(len(cases)) + run.Counter("perturbations") + run.Counter("read_fault_syncs")
	run.Cov["states"] = int64(len(cases))
	run.Cov["transitions"] = int64(2*len(cases)) + run.Counter("perturbations")
	run.Cov["traces_validated_against_impl"] = int64(len(cases))
	run.Sample(cases[17])
	run.Sample(cases[len(cases)/2+5])
	run.Assumptions = []string{"a malformed override annotation is not a usable override (falls through to setting / template)", "single node, single applicable setting (C18 decides multiplicity)"}
	exit(run.Finish("lattice: templates (1-2 containers, with/without resources) x affinity {none, 1 term, 2 terms, foreign metadata.name field, metadata.name NotIn, preferred only} x nodeSelector x toleration x node override annotation {absent, well-formed, malformed, other container} x setting {none, requests, limits, both, other container, not valid} x both assignment modes; for each: real R_ers creates the pod (checked), kubelet binds it, a second R_ers must leave it alone, the same first sync is repeated with every single read call rejected (any pod created must still be right), and every applicable single-field perturbation (template, annotation value, annotation added, setting value) must get it deleted; non-trivial = distinct stable classes"))
}
