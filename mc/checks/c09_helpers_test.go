//go:build helpers

package checks

import (
	"testing"
	"time"

	"github.com/go-logr/logr"
	corev1 "k8s.io/api/core/v1"
	metav1 "k8s.io/apimachinery/pkg/apis/meta/v1"

	"github.com/DataDog/extendeddaemonset/controllers/extendeddaemonsetreplicaset/strategy"

	"verif/mc/h"
	w "verif/mc/world"
)

func c09HelperAvailable() bool { return true }

func c09HelperOne(t *testing.T, run *h.Run, c c09Case) {
	w.InBubble(t, time.Hour, func() {
		now := time.Now()
		eds, rs, nodes, pods := c09Objects(c, now)
		params := &strategy.Parameters{EDSName: "foo", Strategy: &eds.Spec.Strategy, Replicaset: rs, ReplicaSetStatus: "active",
			NewStatus: rs.Status.DeepCopy(), Logger: logr.Discard(),
			NodeByName: map[string]*strategy.NodeItem{}, PodByNodeName: map[*strategy.NodeItem]*corev1.Pod{}}
		for _, n := range nodes {
			it := strategy.NewNodeItem(n, nil)
			params.NodeByName[n.Name] = it // every listed node is in the name table
			if len(n.Spec.Taints) == 0 {
				params.PodByNodeName[it] = pods[n.Name] // only targeted nodes are in the per-node map
			}
		}
		res, err := strategy.ManageDeployment(w.NewAPI(nil), eds, params, metav1.NewTime(now))
		if err != nil || res == nil {
			return
		}
		c09Judge(run, "ManageDeployment", c, len(res.PodsToCreate))
	})
}
