package checks

import (
	"encoding/json"
	"fmt"
	"os"
	"testing"

	"verif/mc/h"
)

// TestSelf: tool-chain self test used by setup (overlay active, harness links against /repo).
func TestSelf(t *testing.T) {
	if err := h.MapOrderSelfTest(); err != nil {
		fmt.Println(err)
		os.Exit(2)
	}
}

func exit(code int) {
	os.Exit(code)
}

type replay struct {
	raw map[string]json.RawMessage
}

// replayFile loads the violation file named by VERIF_REPLAY (nil when not replaying).
func replayFile() *replay {
	p := os.Getenv("VERIF_REPLAY")
	if p == "" {
		return nil
	}
	b, err := os.ReadFile(p)
	if err != nil {
		fmt.Println("cannot read replay:", err)
		os.Exit(2)
	}
	r := &replay{}
	if err := json.Unmarshal(b, &r.raw); err != nil {
		fmt.Println("bad replay file:", err)
		os.Exit(2)
	}
	return r
}

func (r *replay) decode(v interface{}) {
	if err := json.Unmarshal(r.raw["replay"], v); err != nil {
		fmt.Println("bad replay payload:", err)
		os.Exit(2)
	}
}
