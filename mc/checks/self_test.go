package checks

import (
	"fmt"
	"os"
	"testing"

	"verif/mc/h"
)

// TestSelf: tool-chain self test used by setup (overlay active, harness links against /repo).
func TestSelf(t *testing.T) {
	if err := h.MapOrderSelfTest(); err != nil {
		fmt.Println(err)
		os.Exit(2)
	}
}

func exit(code int) {
	os.Exit(code)
}
