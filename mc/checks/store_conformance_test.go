package checks

import (
	"context"
	"encoding/json"
	"fmt"
	"os"
	"strings"
	"testing"
	"time"

	corev1 "k8s.io/api/core/v1"
	apierrors "k8s.io/apimachinery/pkg/api/errors"
	metav1 "k8s.io/apimachinery/pkg/apis/meta/v1"
	"k8s.io/apimachinery/pkg/types"
	"sigs.k8s.io/controller-runtime/pkg/client"

	v1 "github.com/DataDog/extendeddaemonset/api/v1alpha1"

	"verif/mc/h"
	w "verif/mc/world"
)

func errClass(err error) string {
	switch {
	case err == nil:
		return "ok"
	case apierrors.IsNotFound(err):
		return "NotFound"
	case apierrors.IsConflict(err):
		return "Conflict"
	case apierrors.IsAlreadyExists(err):
		return "AlreadyExists"
	case apierrors.IsBadRequest(err):
		return "BadRequest"
	case apierrors.IsInvalid(err):
		return "Invalid"
	}
	return "other:" + err.Error()
}

func dump(a *w.API) string {
	var sb strings.Builder
	for _, o := range a.Snapshot() {
		c := o.O.DeepCopyObject().(client.Object)
		c.SetManagedFields(nil)
		b, _ := json.Marshal(c)
		sb.WriteString(o.Kind + " " + string(b) + "\n")
	}
	return sb.String()
}

type storeOp struct {
	name string
	f    func(c client.Client, a *w.API) string
}

func conformanceOps() []storeOp {
	ctx := context.Background()
	mkPod := func() *corev1.Pod {
		return &corev1.Pod{ObjectMeta: metav1.ObjectMeta{Namespace: "ns", GenerateName: "foo-rs-", Labels: map[string]string{"l": "x"}},
			Spec: corev1.PodSpec{NodeName: "n1", Containers: []corev1.Container{{Name: "main", Image: "A"}}}}
	}
	pk := types.NamespacedName{Namespace: "ns", Name: "foo-rs-n1"}
	ek := types.NamespacedName{Namespace: "ns", Name: "foo"}
	rk := types.NamespacedName{Namespace: "ns", Name: "foo-a"}
	return []storeOp{
		{"createPod", func(c client.Client, a *w.API) string {
			p := mkPod()
			e := a.Create(ctx, p)
			return errClass(e) + " " + p.Name
		}},
		{"podStatus", func(c client.Client, a *w.API) string {
			p := &corev1.Pod{}
			if e := a.Get(ctx, pk, p); e != nil {
				return errClass(e)
			}
			p.Status.Phase = corev1.PodRunning
			p.Labels["ignored"] = "y"
			return errClass(a.Status().Update(ctx, p))
		}},
		{"podUpdate", func(c client.Client, a *w.API) string {
			p := &corev1.Pod{}
			if e := a.Get(ctx, pk, p); e != nil {
				return errClass(e)
			}
			p.Labels["l2"] = "z"
			p.Status.Phase = corev1.PodFailed
			return errClass(a.Update(ctx, p))
		}},
		{"podDelete", func(c client.Client, a *w.API) string {
			return errClass(a.Delete(ctx, &corev1.Pod{ObjectMeta: metav1.ObjectMeta{Namespace: "ns", Name: "foo-rs-n1"}}))
		}},
		{"podGone", func(c client.Client, a *w.API) string {
			p := &corev1.Pod{}
			if e := c.Get(ctx, pk, p); e != nil {
				return errClass(e)
			}
			w.RemovePod(ctx, c, p)
			return "ok"
		}},
		{"edsStaleUpdate", func(c client.Client, a *w.API) string {
			e1, e2 := &v1.ExtendedDaemonSet{}, &v1.ExtendedDaemonSet{}
			_ = a.Get(ctx, ek, e1)
			_ = a.Get(ctx, ek, e2)
			e1.Spec.Template.Labels = map[string]string{"x": "1"}
			r1 := errClass(a.Update(ctx, e1))
			e2.Spec.Template.Labels = map[string]string{"x": "2"}
			return r1 + "," + errClass(a.Update(ctx, e2))
		}},
		{"edsStatus", func(c client.Client, a *w.API) string {
			e := &v1.ExtendedDaemonSet{}
			_ = a.Get(ctx, ek, e)
			e.Status.ActiveReplicaSet = "foo-a"
			e.Spec.Template.Labels = map[string]string{"ignored": "1"}
			e.Annotations = map[string]string{"ignored": "1"}
			return errClass(a.Status().Update(ctx, e))
		}},
		{"edsPatch", func(c client.Client, a *w.API) string {
			e := &v1.ExtendedDaemonSet{}
			_ = a.Get(ctx, ek, e)
			n := e.DeepCopy()
			if n.Annotations == nil {
				n.Annotations = map[string]string{}
			}
			n.Annotations["k"] = "v"
			n.Status.State = "ignored?"
			return errClass(a.Patch(ctx, n, client.MergeFrom(e)))
		}},
		{"ersStatusPatch", func(c client.Client, a *w.API) string {
			r := &v1.ExtendedDaemonSetReplicaSet{}
			if e := a.Get(ctx, rk, r); e != nil {
				return errClass(e)
			}
			n := r.DeepCopy()
			n.Status.Desired = r.Status.Desired + 1
			n.Status.Status = "patched"
			n.Labels = map[string]string{"ignored": "1"}
			return errClass(a.Status().Patch(ctx, n, client.MergeFrom(r)))
		}},
		{"podPatch", func(c client.Client, a *w.API) string {
			p := &corev1.Pod{}
			if e := a.Get(ctx, pk, p); e != nil {
				return errClass(e)
			}
			n := p.DeepCopy()
			delete(n.Labels, "l")
			n.Labels["canary"] = "true"
			return errClass(a.Patch(ctx, n, client.MergeFrom(p)))
		}},
		{"listPods", func(c client.Client, a *w.API) string {
			l := &corev1.PodList{}
			e := a.List(ctx, l, client.InNamespace("ns"), client.MatchingLabels{"l": "x"})
			names := []string{}
			for _, p := range l.Items {
				names = append(names, p.Name)
			}
			l2 := &corev1.PodList{}
			_ = a.List(ctx, l2, client.MatchingLabels{"nope": "x"})
			return errClass(e) + fmt.Sprint(names, len(l2.Items))
		}},
		{"ersDelete", func(c client.Client, a *w.API) string {
			return errClass(a.Delete(ctx, &v1.ExtendedDaemonSetReplicaSet{ObjectMeta: metav1.ObjectMeta{Namespace: "ns", Name: "foo-a"}}))
		}},
		{"ersUpdateNoRV", func(c client.Client, a *w.API) string {
			r := &v1.ExtendedDaemonSetReplicaSet{}
			if e := a.Get(ctx, rk, r); e != nil {
				return errClass(e)
			}
			r.ResourceVersion = ""
			r.Status.Desired = 3
			// the fake refuses, the store is strict too: only the class matters
			e := a.Status().Update(ctx, r)
			if e != nil {
				return "refused"
			}
			return "ok"
		}},
		{"ersStatus", func(c client.Client, a *w.API) string {
			r := &v1.ExtendedDaemonSetReplicaSet{}
			if e := a.Get(ctx, rk, r); e != nil {
				return errClass(e)
			}
			r.Status.Desired = 2
			return errClass(a.Status().Update(ctx, r))
		}},
		{"tick", func(c client.Client, a *w.API) string { time.Sleep(3 * time.Second); return "ok" }},
	}
}

// TestStoreConformance: every sequence of <= 3 (quick) / 4 (thorough) operations on the in-memory store and on
// controller-runtime's fake client gives the same answers and the same contents.
func TestStoreConformance(t *testing.T) {
	ops := conformanceOps()
	maxLen := 3
	if h.Thorough() {
		maxLen = 4
	}
	n, bad := 0, 0
	var rec func(seq []int)
	rec = func(seq []int) {
		if len(seq) > 0 {
			n++
			var res [2][]string
			var dumps [2]string
			for k := 0; k < 2; k++ {
				k := k
				w.InBubble(t, time.Minute, func() {
					eds := w.NewEDS("ns", "foo", "A")
					rs := mkERS("ns", "foo-a", "foo", w.Tpl("A"), w.Epoch)
					st := w.NewState(0, eds, rs, w.MkNode("n1", nil))
					var a *w.API
					if k == 0 {
						a = w.NewAPI(st.Objs)
					} else {
						a = w.NewAPIFake(st.Objs)
					}
					for _, i := range seq {
						res[k] = append(res[k], ops[i].name+"="+ops[i].f(a.Inner(), a))
					}
					dumps[k] = dump(a)
				})
			}
			if fmt.Sprint(res[0]) != fmt.Sprint(res[1]) || dumps[0] != dumps[1] {
				bad++
				if bad <= 3 {
					fmt.Printf("STORE MISMATCH seq=%v\n store: %v\n fake:  %v\n--- store\n%s--- fake\n%s", seq, res[0], res[1], dumps[0], dumps[1])
				}
			}
		}
		if len(seq) == maxLen {
			return
		}
		for i := range ops {
			rec(append(seq, i))
		}
	}
	rec(nil)
	fmt.Printf("store conformance: %d sequences, %d mismatches\n", n, bad)
	if bad > 0 {
		os.Exit(2)
	}
}
