//go:build helpers

package checks

import (
	"testing"
	"time"

	"github.com/go-logr/logr"
	corev1 "k8s.io/api/core/v1"

	v1 "github.com/DataDog/extendeddaemonset/api/v1alpha1"
	"github.com/DataDog/extendeddaemonset/controllers/extendeddaemonsetreplicaset/strategy"

	"verif/mc/h"
	w "verif/mc/world"
)

func c06HelperAvailable() bool { return true }

// c06HelperOne: the real strategy.ManageCanaryDeployment on harness-built parameters at a chosen instant.
func c06HelperOne(t *testing.T, run *h.Run, c c06Case) {
	w.InBubble(t, time.Hour, func() {
		now := time.Now()
		eds, rs, nodes, pods := c06Objects(c, now)
		params := &strategy.Parameters{EDSName: "foo", Strategy: &eds.Spec.Strategy, Replicaset: rs, ReplicaSetStatus: "canary",
			NewStatus: rs.Status.DeepCopy(), Logger: logr.Discard(), CanaryNodes: eds.Status.Canary.Nodes,
			NodeByName: map[string]*strategy.NodeItem{}, PodByNodeName: map[*strategy.NodeItem]*corev1.Pod{}}
		for i, n := range nodes {
			it := strategy.NewNodeItem(n, nil)
			params.NodeByName[n.Name] = it
			if i < len(pods) {
				params.PodByNodeName[it] = pods[i]
			} else {
				params.PodByNodeName[it] = nil
			}
		}
		api := w.NewAPI(nil)
		res, err := strategy.ManageCanaryDeployment(api, eds, params)
		if err != nil || res == nil || res.NewStatus == nil {
			return
		}
		failedCond, pausedCond := false, false
		for _, cd := range res.NewStatus.Conditions {
			if cd.Type == v1.ConditionTypeCanaryFailed && cd.Status == corev1.ConditionTrue {
				failedCond = true
			}
			if cd.Type == v1.ConditionTypeCanaryPaused && cd.Status == corev1.ConditionTrue {
				pausedCond = true
			}
		}
		if len(c.Pods) > 0 && (failedCond != res.IsFailed || (!res.IsFailed && pausedCond != res.IsPaused)) {
			evaluable := 0
			for _, p := range c.Pods {
				if p.Kind != "outdated" && p.Kind != "terminating" {
					evaluable++
				}
			}
			if evaluable > 0 {
				run.Violate(h.Violation{Signature: "C06/conditions: returned Canary-Failed / Canary-Paused conditions disagree with the returned verdict", Monitor: "C06/helper",
					Message: "", Replay: map[string]interface{}{"level": "ManageCanaryDeployment", "case": c}})
			}
		}
		c06Judge(run, "ManageCanaryDeployment", c, failedCond || res.IsFailed, pausedCond && !res.IsFailed || res.IsPaused && !res.IsFailed, len(res.PodsToCreate))
	})
}
