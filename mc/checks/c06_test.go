package checks

import (
	"fmt"
	"sync"
	"sync/atomic"
	"testing"
	"time"

	corev1 "k8s.io/api/core/v1"
	metav1 "k8s.io/apimachinery/pkg/apis/meta/v1"
	"sigs.k8s.io/controller-runtime/pkg/client"

	v1 "github.com/DataDog/extendeddaemonset/api/v1alpha1"

	"verif/mc/h"
	w "verif/mc/world"
)

// pod variants of the C06 lattice
type c06Pod struct {
	Kind     string `json:"kind"`               // ok restarts waiting outdated terminating
	Restarts int    `json:"restarts,omitempty"` // highest container restart count
	Reason   string `json:"reason,omitempty"`   // waiting reason
	StartAgo int    `json:"start_ago_s,omitempty"`
	// Shape of a waiting pod: "" = its only container waits with Reason; "second" = a first container waits with the
	// harmless reason PodInitializing and a second one with Reason; "init" = the regular container waits with
	// PodInitializing and an init container with Reason
	Shape string `json:"shape,omitempty"`
}

type c06Cfg struct {
	APEnabled bool   `json:"autoPause"`
	AFEnabled bool   `json:"autoFail"`
	AP        int32  `json:"autoPause_maxRestarts"`
	AF        int32  `json:"autoFail_maxRestarts"`
	MRD       int    `json:"maxRestartsDuration_s"` // 0 unset
	Span      int    `json:"restart_span_s"`        // -1 no PodRestarting condition
	Timeout   int    `json:"canaryTimeout_s"`       // 0 unset
	Age       int    `json:"canary_age_s"`
	PrevPause string `json:"prev_paused_condition"`
	PrevFail  string `json:"prev_failed_condition"`
	Annot     string `json:"annotations"`            // none paused unpaused both
	SlowStart int    `json:"maxSlowStartDuration_s"` // 0 unset
}

type c06Case struct {
	Cfg  c06Cfg   `json:"cfg"`
	Pods []c06Pod `json:"pods"`
}

var cannotStartSet = map[string]bool{"ErrImagePull": true, "ImagePullBackOff": true, "ImageInspectError": true, "ErrImageNeverPull": true, "RegistryUnavailable": true,
	"InvalidImageName": true, "CreateContainerConfigError": true, "CreateContainerError": true, "PreStartHookError": true, "PostStartHookError": true, "PreCreateHookError": true}

// c06Verdict is the reference: (failed, paused, defined). defined=false when no evaluable pod exists.
func c06Verdict(c c06Case) (failed, paused bool, evaluable int) {
	prevFailed := c.Cfg.PrevFail == "True"
	prevPaused := c.Cfg.PrevPause == "True" || c.Cfg.Annot == "paused" || c.Cfg.Annot == "both"
	unpaused := c.Cfg.Annot == "unpaused" || c.Cfg.Annot == "both"
	failed, paused = prevFailed, prevPaused
	trigFail, trigPause := false, false
	for _, p := range c.Pods {
		if p.Kind == "outdated" || p.Kind == "terminating" {
			continue
		}
		evaluable++
		if c.Cfg.AFEnabled && p.Restarts > int(c.Cfg.AF) {
			trigFail = true
		}
		stuck := false
		if p.Reason != "" {
			past := c.Cfg.SlowStart == 0 || p.StartAgo > c.Cfg.SlowStart
			if cannotStartSet[p.Reason] && past {
				stuck = true
			}
			if p.Reason == "ContainerCreating" && c.Cfg.SlowStart != 0 && p.StartAgo > c.Cfg.SlowStart {
				stuck = true
			}
		}
		if c.Cfg.APEnabled && (stuck || p.Restarts > int(c.Cfg.AP)) {
			trigPause = true
		}
	}
	if evaluable == 0 {
		return failed, paused, 0
	}
	if c.Cfg.AFEnabled {
		if c.Cfg.MRD != 0 && c.Cfg.Span >= 0 && c.Cfg.Span > c.Cfg.MRD {
			trigFail = true
		}
		if c.Cfg.Timeout != 0 && c.Cfg.Age > c.Cfg.Timeout {
			trigFail = true
		}
	}
	failed = prevFailed || trigFail
	if failed {
		return failed, paused, evaluable
	}
	if unpaused {
		paused = false
	} else {
		paused = prevPaused || trigPause
	}
	return failed, paused, evaluable
}

func c06PodVariants(ap, af int32, slow int, thorough bool) []c06Pod {
	out := []c06Pod{{Kind: "ok"}}
	seen := map[int]bool{0: true}
	for _, r := range []int{int(ap), int(ap) + 1, int(af), int(af) + 1} {
		if r >= 0 && !seen[r] {
			seen[r] = true
			out = append(out, c06Pod{Kind: "restarts", Restarts: r})
		}
	}
	starts := []int{59, 61}
	if thorough {
		starts = []int{59, 60, 61}
	}
	reasons := []string{"ErrImagePull", "ContainerCreating", "SomethingElse"}
	if thorough {
		reasons = append(reasons, "CreateContainerConfigError", "PostStartHookError")
	}
	for _, rs := range reasons {
		for _, st := range starts {
			out = append(out, c06Pod{Kind: "waiting", Reason: rs, StartAgo: st})
		}
	}
	out = append(out, c06Pod{Kind: "waiting", Reason: "ErrImagePull", StartAgo: 61, Shape: "second"}, c06Pod{Kind: "waiting", Reason: "ErrImagePull", StartAgo: 61, Shape: "init"})
	out = append(out, c06Pod{Kind: "outdated", Restarts: int(af) + 3}, c06Pod{Kind: "terminating", Restarts: int(af) + 3})
	// a restart count whose last termination is no longer known (the dead container was garbage collected, the node
	// rebooted): the count is what the thresholds are compared with
	out = append(out, c06Pod{Kind: "restarts", Restarts: int(af) + 1, Shape: "nolaststate"})
	if ap != af {
		out = append(out, c06Pod{Kind: "restarts", Restarts: int(ap) + 1, Shape: "nolaststate"})
	}
	return out
}

func c06Cfgs(thorough bool) []c06Cfg {
	var out []c06Cfg
	for _, ape := range []bool{true, false} {
		for _, afe := range []bool{true, false} {
			for _, th := range [][2]int32{{1, 2}, {2, 2}, {0, 5}} {
				for _, mrd := range [][2]int{{0, -1}, {60, -1}, {60, 59}, {60, 60}, {60, 61}} {
					for _, to := range [][2]int{{0, 100}, {300, 299}, {300, 300}, {300, 301}} {
						for _, pp := range []string{"absent", "True", "False"} {
							for _, pf := range []string{"absent", "True", "False"} {
								for _, an := range []string{"none", "paused", "unpaused", "both"} {
									for _, ss := range []int{0, 60} {
										out = append(out, c06Cfg{ape, afe, th[0], th[1], mrd[0], mrd[1], to[0], to[1], pp, pf, an, ss})
									}
								}
							}
						}
					}
				}
			}
		}
	}
	return out
}

// c06Objects builds the EDS, the canary replica set, nodes and pods of a case at instant now.
func c06Objects(c c06Case, now time.Time) (*v1.ExtendedDaemonSet, *v1.ExtendedDaemonSetReplicaSet, []*corev1.Node, []*corev1.Pod) {
	eds := w.NewEDS("ns", "foo", "B", w.WithFrequency(10*time.Second), w.WithCanary("4", 10*time.Minute, 0, "auto"), w.WithAuto(c.Cfg.APEnabled, c.Cfg.AP, c.Cfg.AFEnabled, c.Cfg.AF))
	cs := eds.Spec.Strategy.Canary
	if c.Cfg.MRD != 0 {
		cs.AutoFail.MaxRestartsDuration = w.Dur(time.Duration(c.Cfg.MRD) * time.Second)
	}
	if c.Cfg.Timeout != 0 {
		cs.AutoFail.CanaryTimeout = w.Dur(time.Duration(c.Cfg.Timeout) * time.Second)
		cs.Duration = w.Dur(time.Duration(c.Cfg.Timeout-100) * time.Second)
	}
	if c.Cfg.SlowStart != 0 {
		cs.AutoPause.MaxSlowStartDuration = w.Dur(time.Duration(c.Cfg.SlowStart) * time.Second)
	}
	eds = v1.DefaultExtendedDaemonSet(eds, "auto")
	eds.Annotations = map[string]string{}
	if c.Cfg.Annot == "paused" || c.Cfg.Annot == "both" {
		eds.Annotations[v1.ExtendedDaemonSetCanaryPausedAnnotationKey] = "true"
	}
	if c.Cfg.Annot == "unpaused" || c.Cfg.Annot == "both" {
		eds.Annotations[v1.ExtendedDaemonSetCanaryUnpausedAnnotationKey] = "true"
	}
	// the replica set object is much older than its time as the canary (a replica set re-used for a template that is
	// applied again): "the canary has lasted" counts from when it became the canary
	rs := mkERS("ns", "foo-b", "foo", w.Tpl("B"), now.Add(-3*time.Hour-time.Duration(c.Cfg.Age)*time.Second))
	hash := rs.Spec.TemplateGeneration
	add := func(t v1.ExtendedDaemonSetReplicaSetConditionType, st corev1.ConditionStatus, transition, update time.Time) {
		rs.Status.Conditions = append(rs.Status.Conditions, v1.ExtendedDaemonSetReplicaSetCondition{Type: t, Status: st,
			LastTransitionTime: metav1.NewTime(transition), LastUpdateTime: metav1.NewTime(update), Reason: "CrashLoopBackOff"})
	}
	start := now.Add(-time.Duration(c.Cfg.Age) * time.Second)
	add(v1.ConditionTypeCanary, corev1.ConditionTrue, start, start)
	if c.Cfg.Span >= 0 {
		first := now.Add(-time.Duration(c.Cfg.Span+20) * time.Second)
		add(v1.ConditionTypePodRestarting, corev1.ConditionTrue, first, first.Add(time.Duration(c.Cfg.Span)*time.Second))
	}
	if c.Cfg.PrevPause != "absent" {
		add(v1.ConditionTypeCanaryPaused, corev1.ConditionStatus(c.Cfg.PrevPause), now.Add(-30*time.Second), now.Add(-30*time.Second))
	}
	if c.Cfg.PrevFail != "absent" {
		add(v1.ConditionTypeCanaryFailed, corev1.ConditionStatus(c.Cfg.PrevFail), now.Add(-30*time.Second), now.Add(-30*time.Second))
	}
	rs.Status.Status = "canary"
	var nodes []*corev1.Node
	var pods []*corev1.Pod
	eds.Status.ActiveReplicaSet = "foo-a"
	eds.Status.Canary = &v1.ExtendedDaemonSetStatusCanary{ReplicaSet: "foo-b"}
	for i, pv := range c.Pods {
		name := fmt.Sprintf("c%d", i+1)
		nodes = append(nodes, w.MkNode(name, nil))
		eds.Status.Canary.Nodes = append(eds.Status.Canary.Nodes, name)
		p := &corev1.Pod{ObjectMeta: metav1.ObjectMeta{Namespace: "ns", Name: "foo-b-" + name, CreationTimestamp: metav1.NewTime(now.Add(-5 * time.Minute)),
			Labels:      map[string]string{v1.ExtendedDaemonSetNameLabelKey: "foo", v1.ExtendedDaemonSetReplicaSetNameLabelKey: "foo-b", v1.ExtendedDaemonSetReplicaSetCanaryLabelKey: "true"},
			Annotations: map[string]string{v1.MD5ExtendedDaemonSetAnnotationKey: hash}, Finalizers: []string{w.PodFinalizer}},
			Spec:   corev1.PodSpec{NodeName: name, Containers: []corev1.Container{{Name: "main", Image: "B"}}},
			Status: corev1.PodStatus{Phase: corev1.PodRunning}}
		st := metav1.NewTime(now.Add(-time.Duration(max(pv.StartAgo, 1)) * time.Second))
		if pv.StartAgo == 0 {
			st = metav1.NewTime(now.Add(-4 * time.Minute))
		}
		p.Status.StartTime = &st
		cst := corev1.ContainerStatus{Name: "main", Ready: true, RestartCount: int32(pv.Restarts)}
		ready := corev1.ConditionTrue
		if pv.Restarts > 0 && pv.Shape != "nolaststate" {
			cst.LastTerminationState = corev1.ContainerState{Terminated: &corev1.ContainerStateTerminated{ExitCode: 1, Reason: "Error", FinishedAt: metav1.NewTime(now.Add(-15 * time.Second))}}
		}
		if pv.Reason != "" {
			cst.Ready = false
			cst.State = corev1.ContainerState{Waiting: &corev1.ContainerStateWaiting{Reason: pv.Reason}}
			ready = corev1.ConditionFalse
			p.Status.Phase = corev1.PodPending
		}
		p.Status.ContainerStatuses = []corev1.ContainerStatus{cst}
		benign := corev1.ContainerStatus{Name: "main", State: corev1.ContainerState{Waiting: &corev1.ContainerStateWaiting{Reason: "PodInitializing"}}}
		switch pv.Shape {
		case "second":
			cst.Name = "side"
			p.Spec.Containers = append(p.Spec.Containers, corev1.Container{Name: "side", Image: "B"})
			p.Status.ContainerStatuses = []corev1.ContainerStatus{benign, cst}
		case "init":
			cst.Name = "init"
			p.Spec.InitContainers = []corev1.Container{{Name: "init", Image: "B"}}
			p.Status.ContainerStatuses = []corev1.ContainerStatus{benign}
			p.Status.InitContainerStatuses = []corev1.ContainerStatus{cst}
		}
		p.Status.Conditions = []corev1.PodCondition{{Type: corev1.PodReady, Status: ready, LastTransitionTime: st}}
		switch pv.Kind {
		case "outdated":
			p.Annotations[v1.MD5ExtendedDaemonSetAnnotationKey] = "0ld0ld"
		case "terminating":
			dt := metav1.NewTime(now.Add(-3 * time.Second))
			g := int64(30)
			p.DeletionTimestamp, p.DeletionGracePeriodSeconds = &dt, &g
		}
		pods = append(pods, p)
	}
	// one canary node without pod: something to create
	nodes = append(nodes, w.MkNode("cx", nil))
	eds.Status.Canary.Nodes = append(eds.Status.Canary.Nodes, "cx")
	return eds, rs, nodes, pods
}

// c06Judge compares the observed outcome with the reference.
func c06Judge(run *h.Run, level string, c c06Case, obsFailed, obsPaused bool, creates int) {
	failed, paused, evaluable := c06Verdict(c)
	viol := func(sig, msg string) {
		run.Violate(h.Violation{Signature: sig, Monitor: "C06/" + level, Message: msg, Rank: int64(len(c.Pods)), Replay: map[string]interface{}{"level": level, "case": c}})
	}
	if c.Cfg.PrevFail == "True" && !obsFailed {
		viol("C06/sticky: Canary-Failed was true and became false while the replica set is still the canary", "")
	}
	if (obsFailed || obsPaused) && creates > 0 {
		viol("C06/create: canary pod created while the canary is paused or failed", fmt.Sprintf("failed=%v paused=%v creates=%d", obsFailed, obsPaused, creates))
	}
	if evaluable == 0 {
		run.Nontrivial(fmt.Sprintf("nopods:%v:%v", obsFailed, obsPaused))
		return
	}
	if obsFailed != failed {
		why := "fires without its trigger"
		if failed {
			why = "does not fire on its trigger"
		}
		viol(fmt.Sprintf("C06/fail: auto-fail %s (autoFail=%v)", why, c.Cfg.AFEnabled), fmt.Sprintf("observed failed=%v want %v", obsFailed, failed))
		return
	}
	if !failed && obsPaused != paused {
		why := "fires without its trigger"
		if paused {
			why = "does not fire on its trigger"
		}
		viol(fmt.Sprintf("C06/pause: auto-pause %s (autoPause=%v annotations=%s)", why, c.Cfg.APEnabled, c.Cfg.Annot), fmt.Sprintf("observed paused=%v want %v", obsPaused, paused))
		return
	}
	run.Nontrivial(fmt.Sprintf("verdict:%v:%v:create=%v:ap=%v:af=%v", failed, paused, creates > 0, c.Cfg.APEnabled, c.Cfg.AFEnabled))
}

// c06Twin: Reconcile level — a real R_ers in canary role on a prepared store.
func c06TwinOne(t *testing.T, run *h.Run, c c06Case) {
	w.InBubble(t, time.Hour, func() {
		now := time.Now()
		eds, rs, nodes, pods := c06Objects(c, now)
		rsA := mkERS("ns", "foo-a", "foo", w.Tpl("A"), now.Add(-time.Hour))
		objs := []client.Object{eds, rs, rsA}
		for _, n := range nodes {
			objs = append(objs, n)
		}
		for _, p := range pods {
			objs = append(objs, p)
		}
		st := w.NewState(0, objs...)
		l := w.NewLive(st, w.Config{})
		l.API.ResetLog()
		rr := l.ReconcileERS("ns", "foo-b")
		if rr.Panic != nil {
			run.Violate(h.Violation{Signature: fmt.Sprintf("C06/panic: %v at %s", rr.Panic, rr.PanicSite), Monitor: "C06/twin", Message: fmt.Sprint(rr.Panic), Replay: c})
			return
		}
		post := l.Capture(st)
		r := post.ERS("ns", "foo-b")
		creates := 0
		for _, call := range l.API.Log {
			if call.Verb == "create" && call.Kind == "Pod" {
				creates++
			}
		}
		c06Judge(run, "reconcile", c, w.ERSCondTrue(r, v1.ConditionTypeCanaryFailed), w.ERSCondTrue(r, v1.ConditionTypeCanaryPaused), creates)
	})
}

func TestC06(t *testing.T) {
	run := h.NewRun("C06", "model_checking")
	if rp := replayFile(); rp != nil {
		var x struct {
			Level string  `json:"level"`
			Case  c06Case `json:"case"`
		}
		rp.decode(&x)
		if x.Level == "reconcile" {
			c06TwinOne(t, run, x.Case)
		} else {
			c06HelperOne(t, run, x.Case)
		}
		exit(run.Finish("replay"))
	}
	thorough := h.Thorough()
	cfgs := c06Cfgs(thorough)
	maxPods := 2
	if thorough {
		maxPods = 3
	}
	var helperCalls, twinCalls int64
	haveHelper := c06HelperAvailable()
	var wg sync.WaitGroup
	ch := make(chan c06Cfg, 64)
	for i := 0; i < 16; i++ {
		wg.Add(1)
		go func() {
			defer wg.Done()
			for cfg := range ch {
				vars := c06PodVariants(cfg.AP, cfg.AF, cfg.SlowStart, thorough)
				// 0, 1, 2 (3) pods: every vector, order matters
				var rec func(pods []c06Pod)
				rec = func(pods []c06Pod) {
					c := c06Case{Cfg: cfg, Pods: pods}
					if haveHelper {
						c06HelperOne(t, run, c)
						atomic.AddInt64(&helperCalls, 1)
					}
					if len(pods) <= 1 || !haveHelper {
						c06TwinOne(t, run, c)
						atomic.AddInt64(&twinCalls, 1)
					}
					if len(pods) == maxPods || (len(pods) == 2 && !thorough) {
						return
					}
					for _, v := range vars {
						if len(pods) >= 2 && (v.Kind == "waiting" && (v.Reason != "ErrImagePull" || v.Shape != "" || v.StartAgo != 61) || v.Kind == "outdated" || v.Kind == "terminating" || v.Shape == "nolaststate") {
							continue // third pod: reduced alphabet (ok, the restart counts, one stuck pod)
						}
						rec(append(append([]c06Pod{}, pods...), v))
					}
				}
				rec(nil)
			}
		}()
	}
	for _, cfg := range cfgs {
		ch <- cfg
	}
	close(ch)
	wg.Wait()
	// "once true it stays true while that replica set is the canary" across whole syncs, also when the mark is written (by
	// the user's canary fail or by the controller itself) while another sync of the canary replica set is in flight
	sticky := corpusS3([]string{"n1", "n2"}, "1", "auto", 1, &w.Alpha{MidCmds: []string{"canary-fail"}, PodDev: []string{"restart:3"}, Kubectl: []string{"canary-fail"}})
	sticky.name = "S3-canary-failed-stays-failed"
	runWorld(t, run, []scOpt{sticky}, []func(*w.MonCtx){w.MonC07}, 0)
	requireAntecedents(run, "C07/fail-overtook-sync")
	run.Cov["evaluations"] = helperCalls + twinCalls + run.Counter("transitions")
	run.Cov["states"] = helperCalls + twinCalls + run.Counter("states")
	run.Cov["transitions"] = helperCalls + twinCalls + run.Counter("transitions")
	run.Cov["traces_validated_against_impl"] = twinCalls + run.Counter("traces_validated_against_impl")
	run.Cov["helper_calls"] = helperCalls
	run.Cov["twin_reconciles"] = twinCalls
	run.Sample(c06Case{Cfg: cfgs[7], Pods: []c06Pod{{Kind: "restarts", Restarts: 3}}})
	run.Sample(c06Case{Cfg: cfgs[len(cfgs)/2], Pods: []c06Pod{{Kind: "waiting", Reason: "ErrImagePull", StartAgo: 61}, {Kind: "ok"}}})
	run.Assumptions = []string{"the verdict is stated for >= 1 evaluable (up-to-date, non-terminating) canary pod, as the property does", "kubelet sets status.startTime before container statuses"}
	exit(run.Finish(fmt.Sprintf("lattice: %d configurations (enabled flags x threshold pairs x maxRestartsDuration/span x canaryTimeout/age x previous Canary-Paused / Canary-Failed conditions x pause/unpause annotations x maxSlowStartDuration) x every ordered vector of 0..%d canary pods over the pod variants (restart counts around both thresholds, waiting reasons inside/outside the cannot-start set, start before/after maxSlowStartDuration, outdated, terminating) through the real ManageCanaryDeployment at a chosen virtual instant; Reconcile-level twin for 0..1 pods; non-trivial = distinct (verdict, creation, enabled flags)", len(cfgs), maxPods)))
}
