package checks

import (
	"fmt"
	"strings"
	"sync"
	"testing"
	"time"

	corev1 "k8s.io/api/core/v1"
	metav1 "k8s.io/apimachinery/pkg/apis/meta/v1"
	"sigs.k8s.io/controller-runtime/pkg/client"

	v1 "github.com/DataDog/extendeddaemonset/api/v1alpha1"

	"verif/mc/h"
	w "verif/mc/world"
)

type c05Case struct {
	Strategy   string `json:"strategy"` // none auto manual
	AgeOff     int    `json:"age_minus_duration_s"`
	NR         string `json:"noRestartsDuration"` // unset 0 30s
	RestartOff string `json:"last_restart"`       // none or offset (s) of now relative to restart+NR
	Pause      string `json:"pause"`              // none ann ers both annfalse ann+ersfalse
	Unpause    bool   `json:"unpause_annotation"`
	Valid      string `json:"valid_annotation"` // none this other
	Failed     string `json:"canary_failed_condition"`
	Active     string `json:"recorded_active"` // present missing empty equal
}

func mkERS(ns, name, edsName string, tpl corev1.PodTemplateSpec, created time.Time) *v1.ExtendedDaemonSetReplicaSet {
	hash := w.TemplateHash(&tpl)
	return &v1.ExtendedDaemonSetReplicaSet{ObjectMeta: metav1.ObjectMeta{Namespace: ns, Name: name, CreationTimestamp: metav1.NewTime(created),
		UID:    "uid-ers-" + "ns-" + "name",
		Labels: map[string]string{v1.ExtendedDaemonSetNameLabelKey: edsName}, Annotations: map[string]string{v1.MD5ExtendedDaemonSetAnnotationKey: hash},
		OwnerReferences: []metav1.OwnerReference{{APIVersion: "datadoghq.com/v1alpha1", Kind: "ExtendedDaemonSet", Name: edsName, Controller: ptrTrue()}}},
		Spec: v1.ExtendedDaemonSetReplicaSetSpec{Template: tpl, TemplateGeneration: hash}}
}

func c05Build(c c05Case, now time.Time) *w.State {
	const D = 60 * time.Second
	var opts []w.EDSOpt
	opts = append(opts, w.WithFrequency(10*time.Second))
	switch c.Strategy {
	case "auto":
		opts = append(opts, w.WithCanary("1", D, 0, "auto"))
	case "manual":
		opts = append(opts, w.WithCanary("1", 0, 0, "manual"))
	case "manual+duration":
		// an object defaulted under auto whose mode was later switched to manual: the duration is still there
		opts = append(opts, w.WithCanary("1", D, 0, "manual"))
	}
	eds := w.NewEDS("ns", "foo", "B", opts...)
	eds = v1.DefaultExtendedDaemonSet(eds, v1.ExtendedDaemonSetSpecStrategyCanaryValidationModeAuto)
	var nr time.Duration = -1
	if cs := eds.Spec.Strategy.Canary; cs != nil {
		cs.NoRestartsDuration = nil // defaulting fills 5m in auto mode; the lattice controls it explicitly
		switch c.NR {
		case "0":
			nr = 0
			cs.NoRestartsDuration = w.Dur(0)
			cs.NoRestartsDuration = &metav1.Duration{Duration: 0}
		case "30s":
			nr = 30 * time.Second
			cs.NoRestartsDuration = w.Dur(nr)
		}
		if c.Strategy == "manual" {
			cs.NoRestartsDuration = nil
		}
		if c.Strategy == "manual+duration" {
			cs.ValidationMode = v1.ExtendedDaemonSetSpecStrategyCanaryValidationModeManual
		}
	}
	rsA := mkERS("ns", "foo-a", "foo", w.Tpl("A"), now.Add(-time.Hour))
	rsA.Status = v1.ExtendedDaemonSetReplicaSetStatus{Status: "active", Desired: 2, Current: 2, Ready: 2, Available: 2}
	created := now.Add(-D - time.Duration(c.AgeOff)*time.Second)
	rsB := mkERS("ns", "foo-b", "foo", w.Tpl("B"), created)
	rsB.Status = v1.ExtendedDaemonSetReplicaSetStatus{Status: "canary", Desired: 1, Current: 1, Ready: 1, Available: 1}
	add := func(t v1.ExtendedDaemonSetReplicaSetConditionType, st corev1.ConditionStatus, at time.Time) {
		rsB.Status.Conditions = append(rsB.Status.Conditions, v1.ExtendedDaemonSetReplicaSetCondition{Type: t, Status: st,
			LastTransitionTime: metav1.NewTime(at), LastUpdateTime: metav1.NewTime(at), Reason: "CrashLoopBackOff"})
	}
	if c.RestartOff != "none" {
		var off int
		fmt.Sscanf(c.RestartOff, "%d", &off)
		base := nr
		if base < 0 {
			base = 30 * time.Second
		}
		// now = restart + NR + off  =>  restart = now - NR - off
		add(v1.ConditionTypePodRestarting, corev1.ConditionTrue, now.Add(-base-time.Duration(off)*time.Second))
	}
	if c.Pause == "ers" || c.Pause == "both" {
		add(v1.ConditionTypeCanaryPaused, corev1.ConditionTrue, now.Add(-20*time.Second))
	}
	if c.Pause == "ann+ersfalse" {
		// the replica set went through a pause / unpause cycle before: it carries a Canary-Paused condition that is False
		add(v1.ConditionTypeCanaryPaused, corev1.ConditionFalse, now.Add(-20*time.Second))
	}
	switch c.Failed {
	case "True":
		add(v1.ConditionTypeCanaryFailed, corev1.ConditionTrue, now.Add(-10*time.Second))
	case "False":
		add(v1.ConditionTypeCanaryFailed, corev1.ConditionFalse, now.Add(-10*time.Second))
	}
	eds.Annotations = map[string]string{}
	switch c.Pause {
	case "ann", "both", "ann+ersfalse":
		eds.Annotations[v1.ExtendedDaemonSetCanaryPausedAnnotationKey] = "true"
	case "annfalse":
		eds.Annotations[v1.ExtendedDaemonSetCanaryPausedAnnotationKey] = "false"
	}
	if c.Unpause {
		eds.Annotations[v1.ExtendedDaemonSetCanaryUnpausedAnnotationKey] = "true"
	}
	switch c.Valid {
	case "this":
		eds.Annotations[v1.ExtendedDaemonSetCanaryValidAnnotationKey] = "foo-b"
	case "other":
		eds.Annotations[v1.ExtendedDaemonSetCanaryValidAnnotationKey] = "foo-a"
	}
	objs := []client.Object{w.MkNode("n1", nil), w.MkNode("n2", nil), eds, rsB}
	eds.Status = v1.ExtendedDaemonSetStatus{Desired: 2, Current: 2, Ready: 2, Available: 2, UpToDate: 2, State: v1.ExtendedDaemonSetStatusStateCanary}
	switch c.Active {
	case "present":
		eds.Status.ActiveReplicaSet = "foo-a"
		objs = append(objs, rsA)
	case "missing":
		eds.Status.ActiveReplicaSet = "foo-a"
	case "empty":
		objs = append(objs, rsA)
	case "equal":
		eds.Status.ActiveReplicaSet = "foo-b"
		objs = append(objs, rsA)
	}
	if c.Strategy != "none" && (c.Active == "present") {
		eds.Status.Canary = &v1.ExtendedDaemonSetStatusCanary{ReplicaSet: "foo-b", Nodes: []string{"n1"}}
	}
	st := w.NewState(0, objs...)
	st.Now = now.Sub(w.Epoch)
	return st
}

func c05Cases() []c05Case {
	var out []c05Case
	for _, st := range []string{"none", "auto", "manual", "manual+duration"} {
		for _, age := range []int{-1, 0, 1} {
			for _, nr := range []string{"unset", "0", "30s"} {
				for _, ro := range []string{"none", "-1", "0", "1"} {
					for _, p := range []string{"none", "ann", "ers", "both", "annfalse", "ann+ersfalse"} {
						for _, up := range []bool{false, true} {
							for _, v := range []string{"none", "this", "other"} {
								for _, f := range []string{"absent", "True", "False"} {
									for _, a := range []string{"present", "missing", "empty", "equal"} {
										if st == "manual+duration" && (nr != "unset" || ro != "none") {
											continue
										}
										if st != "auto" && st != "manual+duration" && (age != 0 || nr != "unset") {
											continue // durations are meaningless without an auto canary
										}
										out = append(out, c05Case{st, age, nr, ro, p, up, v, f, a})
									}
								}
							}
						}
					}
				}
			}
		}
	}
	return out
}

func c05Eval(t *testing.T, run *h.Run, c c05Case) {
	at := time.Hour
	w.InBubble(t, at, func() {
		pre := c05Build(c, time.Now())
		l := w.NewLive(pre, w.Config{})
		rr := l.ReconcileEDS("ns", "foo")
		post := l.Capture(pre)
		if rr.Panic != nil {
			run.Violate(h.Violation{Signature: fmt.Sprintf("C05/panic: %v at %s", rr.Panic, rr.PanicSite), Monitor: "C05/lattice", Message: fmt.Sprint(rr.Panic), Replay: c})
			return
		}
		sig, msg, changed := w.CheckPromotion(pre, post, "ns", "foo")
		if rr.Err != nil && strings.HasPrefix(sig, "C05/adopt") {
			sig = "" // the reconcile reported an error (e.g. an invalid spec): adoption is only promised for a successful one
		}
		if changed {
			run.Count("antecedent:active-changed", 1)
			run.Nontrivial(fmt.Sprintf("changed:%s age%d nr%s ro%s p%s v%s f%s a%s", c.Strategy, c.AgeOff, c.NR, c.RestartOff, c.Pause, c.Valid, c.Failed, c.Active))
		}
		if sig != "" {
			run.Violate(h.Violation{Signature: sig, Monitor: "C05/lattice", Message: msg, Replay: c})
		}
	})
}

func TestC05(t *testing.T) {
	run := h.NewRun("C05", "model_checking")
	if rp := replayFile(); rp != nil {
		var c c05Case
		rp.decode(&c)
		c05Eval(t, run, c)
		exit(run.Finish("replay"))
	}
	cases := c05Cases()
	var wg sync.WaitGroup
	ch := make(chan c05Case, 256)
	for i := 0; i < 16; i++ {
		wg.Add(1)
		go func() {
			defer wg.Done()
			for c := range ch {
				c05Eval(t, run, c)
			}
		}()
	}
	for _, c := range cases {
		ch <- c
	}
	close(ch)
	wg.Wait()
	run.Sample(cases[len(cases)/3])
	run.Sample(cases[len(cases)/2])
	// world part: timed canary explorations with the promotion monitor
	worldStates, worldTrans := c05World(t, run)
	run.Cov["evaluations"] = int64(len(cases)) + worldTrans
	run.Cov["states"] = int64(len(cases)) + worldStates
	run.Cov["transitions"] = int64(len(cases)) + worldTrans
	run.Cov["lattice_reconciles"] = len(cases)
	if run.Counter("antecedent:active-changed") == 0 {
		fmt.Println("HARNESS ERROR: C05 antecedent never true (vacuous)")
		exit(2)
	}
	run.Assumptions = []string{"reads are linearizable; one reconcile is one transition", "an instant exactly on a threshold counts as elapsed (either outcome accepted)",
		"unpause annotation together with a True Canary-Paused condition of the replica set: treated as paused (statement leaves it open; code agrees)"}
	exit(run.Finish("lattice: full product of canary strategy x age vs duration {-1,0,+1 s} x noRestartsDuration x last restart {none, inside, exactly, outside} x pause source x unpause x valid annotation x Canary-Failed x recorded active replica set, each through one real ExtendedDaemonSet Reconcile at a chosen virtual instant; plus BFS of timed canary scenarios with the promotion monitor; non-trivial = cases in which status.activeReplicaSet changed, distinct by the case tuple"))
}
