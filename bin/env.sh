# sourced by every script: offline Go 1.26.8 tool chain, private caches
export GOTOOLCHAIN=local GOFLAGS=-mod=mod GOPROXY=off GOSUMDB=off GOWORK=off
export GOCACHE=/verif/.gocache
export PATH=/opt/veriftools/go1.26.8/bin:$PATH
export VGO=/opt/veriftools/go1.26.8/bin/go
